#!/usr/bin/env python3
"""Regenerates /verif/MANIFEST.json from the table below (keeps it valid at all times)."""
import json, subprocess

props = [json.loads(l) for l in open('/verif/properties.jsonl')]
ids = [p['id'] for p in props]

# id -> (engine, technique, level text, level note, design ref)
CHECKS = {
 "C01": ("fvh-blackbox", "model-based stateful property testing (proptest histories vs. reference model, shrinking by re-execution)",
         "thousands of generated command histories per run are executed against the real server process and a reference model written from the Redis documentation; every reply and the dataset after every refused command and at the end are compared. Exploration of a bounded-length history space with colliding key/value pools and boundary integers; no claim of absence.",
         "trusts the reference model (DESIGN Appendix B) and the normaliser (errors equal up to wording; status==bulk when bytes equal); open findings K01/K02 are excluded by narrow predicates while their probes reproduce", "3/C01"),
 "C03": ("fvh-blackbox", "model-based stateful property testing (proptest histories vs. reference model, validity oracles for random picks)",
         "generated list/set/hash histories against the real server and the reference model; lists compared exactly, sets/hashes as multisets, SPOP/SRANDMEMBER by validity then adopted; dataset dump after every refused command and at the end.",
         "trusts the reference model; counts below -2^20 for SRANDMEMBER are treated as 'must be refused'; finding K02 excluded while it reproduces", "3/C03"),
 "C04": ("fvh-blackbox", "model-based stateful property testing over colliding scores",
         "generated sorted-set histories (equal scores, -0, +-inf, neighbours, NaN and invalid scores at any position) against the real server and an ordered (score, member) model; dump after refused commands (refused multi-member ZADD adds nothing) and at the end.",
         "scores compared numerically; trusts the model; finding K02 excluded while it reproduces", "3/C04"),
 "C15": ("fvh-blackbox", "model-based stateful property testing (ordered-map model + greatest-ID-ever)",
         "generated stream histories (auto/explicit IDs at u64 edges and ahead of the clock, malformed IDs, XDEL/XTRIM, ranges with bounds below/inside/between/above, COUNT, XREAD) against the real server and an ordered-map model that tracks the greatest ID ever added.",
         "only complete IDs; fields compare as maps; findings K02/K03 excluded while they reproduce", "3/C15"),
 "C20": ("fvh-inproc", "property-based round-trip, exhaustive/generated chunking differential, totality under catch_unwind + counting allocator (child process for aborts)",
         "in-process against ferrous::protocol: generated frame trees round-trip through serializer and parser; streams of frames (optionally damaged) are fed whole and in generated chunkings, exhaustively for streams of <= 12 bytes, and must give the same frames and terminal state; arbitrary protocol-alphabet bytes and hostile declared lengths must yield frame / need-more / error without panic, abort or an allocation beyond 64 KiB + 64 x bytes received.",
         "simple strings/errors generated without CR/LF; allocation bound is deliberately loose (a complete array of tiny elements costs ~11x its wire size); nesting probed to 100000 levels in child processes", "3/C20"),
}
CHECKS["C04"] = ("fvh-blackbox", "model-based stateful property testing: in-process skip-list sequences with a structural invariant hook + command histories over colliding scores",
         "A: generated insert/re-score/remove/range sequences on the real SkipList, every op followed by the cfg-guarded structural invariant walker (all levels ordered, sub-sequence property, index/chain/length bijection) and by all public queries against an ordered model, each sequence run 4 times because tower heights are random. B: generated sorted-set command histories against the real server and an ordered (score, member) model with dumps after refused commands (refused multi-member ZADD adds nothing) and at the end.",
         "scores compared numerically; trusts the model and the hook's invariant list; finding K02 excluded while it reproduces", "3/C04")

CHECKS["C07"] = ("fvh-blackbox", "model-based stateful property testing (harness-sequenced multi-connection histories) + concurrent invariant workload + blocked-client-vs-EXEC scenarios",
         "C (c07c): a client blocked in BLPOP/BRPOP while another connection's transaction pushes to its list (LPUSH/RPUSH/EVAL/EVALSHA) and reads it back: EXEC reply = queued commands back to back, blocked client served only afterwards. A: generated multi-connection histories (MULTI, queued commands of every family incl. run-time failures, interleaved commands of other connections, EXEC/DISCARD/disconnect, stray EXEC/DISCARD, nested MULTI) sequenced by the harness and compared with the model: +QUEUED and no effect while queueing (observer dump), EXEC slots = model replies back to back, errors in their slot, state cleared. B: bursts of 6 writers running transfer transactions in three send modes and 6 readers taking single-command and read-only-transaction snapshots under schedule-independent invariants (sum conservation, even log length, final state).",
         "isolation is sampled under real OS schedules, not enumerated; queue-time EXECABORT is not assumed; finding K02 excluded while it reproduces", "3/C07 and 9")
CHECKS["C08"] = ("fvh-blackbox", "enumerated grid (write command x key state x path, second watchers forgetting their watch) + model-based random histories",
         "every tier runs the full grid of ~70 commands x 8 watched-key states x 4 paths (other connection, same connection, other connection's EXEC, script) plus served blocking pops, deadline expiry before/after a sweeper pass, UNWATCH/DISCARD/EXEC forgetting, and other databases; random WATCH histories on top. The model decides must-abort (state of a watched key changed) and must-execute (no write addressed a watched key); no-op writes are not asserted.",
         "script-path commands are applied to the model leniently (their replies are C12's business) and end dataset comparison for that case", "3/C08")
CHECKS["C18"] = ("fvh-blackbox", "model-based stateful property testing with a 16-database model and all-database dumps",
         "generated multi-connection histories: SELECT (valid/invalid), commands of every family on a shared key pool through direct, MULTI/EXEC (with SELECT inside), EVAL, EVALSHA, script-issued whole-keyspace commands, blocked BLPOP/BRPOP with pushes in other databases, WATCH across databases, FLUSHDB/FLUSHALL, KEYS/SCAN/DBSIZE/RANDOMKEY; replies compared with the model for the selected database at that time and a 16-database canonical dump compared after refusals and at the end.",
         "script-wrapped commands are restricted to a subset whose script-path effect equals the direct effect; reply content of scripts is not judged here", "3/C18")

CHECKS["C02"] = ("fvh-blackbox", "model-based real-time property testing (three-valued timed model) + harness-owned sweeper interleavings through a sync-point hook",
         "A: generated real-time histories against the real server with its real once-per-second sweeper; each request is bracketed by monotonic clock readings, so for every command the model knows whether a key's deadline has definitely passed, definitely not, or lies inside the window (then nothing is asserted and the case ends). Reads through every command family, create-or-update writes, TTL clearing/moving/extending, TTL/PTTL values within the clock interval, and dumps after two sweeper periods (no spurious deletion). B: in-process, the cfg(ferrous_verif) gate parks the sweeper between its scan and its deletions while the harness re-creates / overwrites / renames onto / persists the collected keys; all (type x operation) pairs are enumerated in every run.",
         "harness and server share CLOCK_MONOTONIC; a defect visible only inside the sub-millisecond ambiguity window is invisible; B trusts the gate placement (between collect and delete)", "3/C02")
CHECKS["C05"] = ("fvh-blackbox", "generated pipelines with marker framing, segmentation differential, protocol-violation grammar",
         "generated pipelines of valid, impossible (unknown / arity / wrong type / bad argument / missing key) and transactional items with hostile argument bytes, deep pipelines of 300-5000 short commands, replies larger than the socket buffer read by a slow reader, each item followed by ECHO of a unique marker, sent under generated segmentations (whole, byte by byte, cuts, per command, inside every header/CRLF); an independent RESP decoder must find exactly the expected frames with markers in place, errors for impossible commands, a usable connection afterwards, and byte-identical replies for the one-write send. 18 kinds of protocol-violating frames must draw an error reply.",
         "kernel-level TCP coalescing is not controlled (only what is written when); pub/sub and blocking commands are outside this generator; silence verdicts need 1.5 s without bytes plus a responsive control connection", "3/C05")

CHECKS["C06"] = ("fvh-blackbox", "boundary-value enumeration over the socket (bisected to single requests) + grammar-aware hostile stream generation",
         "every dispatched command name (read from the source at check time) x argument count x fuzzed position x a 47-value boundary pool x 13 key states, plus sub-command-aware forms, script-issued boundary commands and hostile Lua, sent in batches on throw-away connections against real server processes; after every batch / stream: process alive, PONG on a fresh connection within 5 s, sentinel data of all six types intact; failures are bisected to one request and confirmed on two fresh servers. The thorough tier runs the complete enumeration (1.3 M requests), the quick tier a seed-offset stride of it.",
         "counts with magnitude in (2^20, 2^40) are not generated; process-stopping commands (SHUTDOWN, SLEEP, DEBUG, CLIENT PAUSE, ...) excluded; resource exhaustion needing GBs of legitimate data is out of reach; finding K06 tolerated for exactly one script", "3/C06")

CHECKS["C17"] = ("fvh-blackbox", "enumeration of command forms x connection contexts + generated AUTH histories, control-connection side-effect oracle",
         "server with a generated password and a pre-loaded dataset; every dispatched command name (from the source) in 8 spellings/arities plus ~70 attack forms, each on a fresh unauthenticated connection in seven contexts (incl. the same write as a failing or malformed AUTH); the password is set on the command line or by a requirepass line in a configuration file merged by the server's own code; intruders streaming writes while an administrator CLIENT KILLs them: exactly one error frame and no other byte, process alive, dataset dump / subscriber counts / replica table unchanged as seen by an authenticated control connection, nothing pushed to the intruder while the control connection writes; generated wrong-password histories must be refused and the exact password authenticates that connection only.",
         "quick tier covers every form in a rotating subset of the seven contexts (all of them for the attack forms); thorough is exhaustive over forms x contexts", "3/C17")

CHECKS["C09"] = ("fvh-blackbox", "generated-dataset round trip through a real restart (and through the library), canonical dump differential with clock-bracketed TTL intervals",
         "generated datasets (six types, sizes at the 6/14/32-bit length-encoding boundaries, binary and marker-equal strings, float-edge scores, u64-edge stream IDs, 16 databases, TTLs shorter and longer than the downtime and up to 100 years) are loaded into a real server (in a third of the cases SAVEd, then modified through paths a change counter can forget), dumped, SAVEd, the process is killed -9, kept down for a generated time and restarted on the same directory; the second dump must equal the first, PTTLs must lie in the interval the harness clock allows, keys whose deadline provably passed must be absent. The same datasets go through RdbEngine::save/load in-process at 10x the volume.",
         "sizes up to 70000 elements / bytes (2^20 and the >= 4 GiB path are out of reach); findings K07/K08 excluded while they reproduce", "3/C09")

CHECKS["C10"] = ("fvh-inproc", "exhaustive fault injection over the write calls of a save + harness-owned save/writer races through sync-point hooks + prefix/substitution enumeration of damaged dumps",
         "in-process with cfg(ferrous_verif) hooks. A: for generated datasets every write call of a save (all n while a save makes <= 3000 writes) is made to fail, as io::Error in SAVE, io::Error in BGSAVE and a panic in the BGSAVE thread, and then every operating-system write underneath the writer's buffer including the final flush; after each the previous dump must be byte-identical, the in-progress flag clear, and finally a plain save must load back to the dataset. B: the save thread is parked before a key is read, between its value and TTL reads, and inside the sorted-set encoder while generated mutations are applied; the file must load and hold a (value, TTL) state the key really had. C: every prefix and every single-byte substitution of valid dumps, plus spliced absurd length headers, under catch_unwind, watchdog and counting allocator.",
         "fault points are write-call failures (no fsync exists to lose); race windows are the three read steps the writer has; allocation bound 1 MiB + 64 x file length", "3/C10")
LEVEL = {"C10": "fault_enumeration"}
CHECKS["C11"] = ("fvh-blackbox", "generated histories with an independent AOF decoder, redo differential against a second server, log-vs-execution subsequence oracle",
         "generated multi-connection histories over the write catalogue through four paths (direct, MULTI/EXEC, scripts incl. EVALSHA, blocked pops served by a push) with SELECT, random-outcome and failing commands against a server with appendonly on; after every step the AOF on disk must decode into whole command frames; at the end the frames are replayed in file order into an empty server and the canonical dumps of all 16 databases must be equal; the log minus SELECT frames must be a subsequence of the executed commands in execution order (random outcomes in outcome-preserving form).",
         "durability (fsync) is not observable and not claimed; the harness replays the log itself because the server's own start-up replay is a no-op; a step without reply is inconclusive (liveness is C06's)", "3/C11")

CHECKS["C12"] = ("fvh-blackbox", "twin-server differential over generated histories (command sent directly vs. wrapped in redis.call/pcall/KEYS/EVALSHA with a rendering of what the script saw), canonical dump equality after every step, generated return-value literals, concurrent atomicity workload",
         "twin servers fed the same generated history over the deterministic data catalogue in a generated database: direct on one, wrapped in a script on the other; the rendering of what the script saw must equal the standard RESP->Lua conversion of the direct reply, errors must raise (call) or arrive as err-tables (pcall), and the canonical dumps must be equal after every step. Fixed script checks: KEYS/ARGV bytes incl. all 256 byte values, call-aborts/pcall-continues with earlier effects kept, EVALSHA == EVAL in a non-zero database, 23 sandbox escapes with a canary directory, 25 forbidden commands. Lua numbers passed as arguments vs. their decimal spelling sent directly. Generated nested Lua literals returned by a script vs. the standard Lua->RESP conversion. Atomicity: concurrent script transfers with invariant-checking observers.",
         "status replies and nil replies reach scripts in a non-standard form pinned by the repository's tests (K10, K11: compared modulo exactly that); return conversions the tests pin differently (false, floats, empty table) are not generated; a script's effect on blocked clients is C13's", "3/C12")

CHECKS["C13"] = ("fvh-blackbox", "model-based generated histories of sequenced multi-client blocking operations against a reference model of blocking-pop semantics, plus unsequenced concurrent bursts with a conservation oracle",
         "generated histories of four clients over three lists (BLPOP/BRPOP on 1-3 keys with finite/infinite timeouts; pushes of 1-4 unique elements sent directly, in MULTI/EXEC, from a script; LPOP/RPOP; a pipelined push+pop batch; pushes to two keys in one write; waits; stalls of the single-threaded server so that several deadlines meet one sweep; groups of equal-timeout waiters; disconnects of blocked clients), sequenced by PING round trips on a control connection so that a reference model decides every reply: FIFO service with head/tail by direction, prompt service, nil never before the timeout and always within 8 s after it, no nil for infinite waits, nothing for clients to whom nothing is due, LRANGE == pushed minus delivered after every step, wind-down residue checks. Unsequenced bursts (3 pushers, 5 blocking poppers, disconnects while blocked) checked for conservation only.",
         "schedules inside one event-loop iteration are sampled by the bursts only; the 8 s promptness bound is the harness's choice; the registry is observed through behaviour (later pushes stay, later calls run their full timeout), not through a hook", "3/C13")

CHECKS["C14"] = ("fvh-blackbox", "model-based generated multi-client pub/sub histories against a reference model of the subscription sets (exact frames per subscriber, PUBLISH counts, acknowledgement counts)",
         "generated histories of four subscriber and two publisher connections (SUBSCRIBE/PSUBSCRIBE 1-3 names incl. repeats, UNSUBSCRIBE/PUNSUBSCRIBE named/all/not-subscribed/nothing-subscribed, PUBLISH with binary, empty, CRLF, RESP-looking and up to 70 KB payloads, pipelined publish bursts, disconnect+reconnect) over overlapping channels and glob patterns; a model decides every acknowledgement with its remaining count, the PUBLISH integer, and per subscriber exactly the due message/pmessage frames byte for byte in publish order; after every step nobody has an extra frame.",
         "order of one client's frames within a single publish, and of the acknowledgements of an unsubscribe-all, is not specified and compared as a multiset; commands other than (un)subscribe sent in subscribed mode are not generated", "3/C14")

CHECKS["C19"] = ("fvh-blackbox", "generated collections and full cursor iterations interleaved with generated additions/deletions of other elements, checked against a model of the stable and ever-existing sets",
         "one case = a collection (key space with six types, or one hash/set/sorted set) of stable plus volatile elements, one full SCAN/HSCAN/SSCAN/ZSCAN iteration with generated COUNT, MATCH, TYPE, HSCAN NOVALUES, options in either order, and a generated batch of additions and deletions of volatile elements after each call. Oracle: every stable element satisfying the filters is returned; every returned element existed and satisfies MATCH (model glob) and TYPE; HSCAN values / ZSCAN scores are the element's own; the iteration terminates within n/COUNT + 12 calls after modifications stop.",
         "elements whose value or score changes during the iteration are not generated; COUNT 0 and malformed options are not part of the property", "3/C19")

CHECKS["C16"] = ("fvh-blackbox", "model-based generated consumer-group histories against a reference model (cursor, pending map, consumer set) with all observable representations of the pending set compared after every step",
         "generated histories over two streams, two groups, four consumers (XADD, XGROUP CREATE at 0/$/ID with/without MKSTREAM, DESTROY, SETID incl. backwards, CREATECONSUMER, DELCONSUMER, XREADGROUP > with COUNT/NOACK, explicit-ID re-reads, XACK of pending/acknowledged/unknown/repeated IDs, XCLAIM with min-idle 0 / 150 ms decided on the harness clock / one hour, JUSTID, XDEL of non-pending entries); a model decides every reply, and after every step XPENDING summary, XPENDING ranges (overall, per consumer, sub-range with count, reversed), XINFO GROUPS and XINFO CONSUMERS must all equal the model.",
         "delivery counters and idle times are not compared; pending entries are never deleted by the generator; whether a read/claim that delivers nothing creates its consumer is adopted from the first observation; the duplicated counters are observed through the commands that expose them, so no in-process hook was needed", "3/C16")

checks = []
for i in ids:
    if i in CHECKS:
        eng, tech, text, note, ref = CHECKS[i]
        checks.append({
            "property_id": i,
            "quick_cmd": f"bin/check {i} --tier quick",
            "thorough_cmd": f"bin/thorough {i}",
            "evidence_file": f"/verif/evidence/{i}.json",
            "replay_cmd_template": f"bin/check {i} --replay {{path}}",
            "engine": eng,
            "level_claimed": {"category": LEVEL.get(i, "exploration") if 'LEVEL' in globals() else "exploration", "text": text, "design_ref": "DESIGN.md section " + ref},
            "level_note": note,
            "technique": tech,
        })

hooks = []
try:
    out = subprocess.run(['git','-C','/repo','log','--format=%H %s'],capture_output=True,text=True).stdout
    hooks = [l.split()[0] for l in out.splitlines() if ' verif-hook:' in l]
except Exception:
    pass

m = {
 "version": 1,
 "setup_cmd": "bin/setup",
 "hooks": {"guard": "ferrous_verif",
           "enable": "RUSTFLAGS='--cfg ferrous_verif' (set in harness/.cargo/config.toml; the harness links /repo as a path dependency and is rebuilt by bin/check before every run)",
           "baseline_off_cmd": "cd /repo && cargo test --workspace --no-fail-fast --offline",
           "source_commits": hooks, "add_only": True},
 "engines": [
   {"name": "fvh-blackbox", "path": "/verif/harness", "serves_properties": [i for i in ids if i in CHECKS and CHECKS[i][0]=="fvh-blackbox"],
    "kind_free_text": "Rust harness (proptest strategies + own case loop): child server processes running ferrous::Server from /repo's working tree, independent RESP client, reference model, canonical dumps"},
   {"name": "fvh-inproc", "path": "/verif/harness", "serves_properties": [i for i in ids if i in CHECKS and CHECKS[i][0]=="fvh-inproc"],
    "kind_free_text": "same crate, in-process: calls the ferrous library (parser, skip list, RDB engine, storage) directly, with cfg(ferrous_verif) hooks"},
 ],
 "checks": checks,
 "notes": "exit 0 = held on everything explored (KNOWN-FINDING lines possible); exit 1 + VIOLATION line = violation; exit 2 = inconclusive (build failure, server would not start, generator floor missed). Known findings: /verif/known_findings.json.",
 "not_applicable": [{"property_id": i, "reason": "check not built yet (work in progress; design in DESIGN.md section 3)"} for i in ids if i not in CHECKS],
}
json.dump(m, open('/verif/MANIFEST.json','w'), indent=1)
print("checks:", [c['property_id'] for c in checks])
