#!/usr/bin/env python3
"""Select regression replays: from evidence/replays/<id>/ (every failure ever reported while
building: repaired defects, reverted fixes, seeded changes) keep up to N per signature that
PASS on the current tree, smallest first, as regress/<id>/<signature>-<hash>.json."""
import json, glob, os, re, subprocess, sys, shutil
root = os.path.dirname(os.path.dirname(os.path.abspath(__file__)))
exe = os.path.join(root, 'target/harness/debug/check')
per_sig = int(os.environ.get('PER_SIG', '2'))
per_prop = int(os.environ.get('PER_PROP', '24'))
ids = sys.argv[1:] or sorted(os.listdir(os.path.join(root, 'evidence/replays')))
for pid in ids:
    files = glob.glob(os.path.join(root, 'evidence/replays', pid, '*.json'))
    have = set(os.listdir(os.path.join(root, 'regress', pid))) if os.path.isdir(os.path.join(root, 'regress', pid)) else set()
    by_sig = {}
    for f in files:
        try:
            d = json.load(open(f))
        except Exception:
            continue
        sig = re.sub(r'[^A-Za-z0-9_.-]+', '_', str(d.get('signature', 'x')))[:60]
        by_sig.setdefault(sig, []).append((os.path.getsize(f), f))
    kept = 0
    os.makedirs(os.path.join(root, 'regress', pid), exist_ok=True)
    for sig in sorted(by_sig):
        n = sum(1 for h in have if h.startswith(sig + '-'))
        for size, f in sorted(by_sig[sig]):
            if n >= per_sig or kept + len(have) >= per_prop or size > 300_000:
                break
            name = '%s-%s' % (sig, os.path.basename(f))
            if name in have:
                continue
            env = dict(os.environ, FVH_NO_REGRESS='1')
            try:
                r = subprocess.run([exe, pid, '--replay', f], stdout=subprocess.DEVNULL, stderr=subprocess.DEVNULL, timeout=120, env=env)
            except subprocess.TimeoutExpired:
                continue
            if r.returncode == 0:
                shutil.copy(f, os.path.join(root, 'regress', pid, name))
                n += 1
                kept += 1
    print(pid, 'kept', kept, 'already', len(have), 'signatures', len(by_sig))
