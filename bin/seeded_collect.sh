#!/bin/bash
# usage: seeded_collect.sh C04   -- copy /tmp/mut_<id>/MUTANT/{a,b} to /verif/seeded/<id>-{a,b}
id=$1
for x in a b; do
  src=/tmp/mut_$id/MUTANT/$x
  [ -f $src/patch.diff ] || { echo "no $src/patch.diff"; continue; }
  dst=/verif/seeded/$id-$x
  mkdir -p $dst
  cp $src/patch.diff $dst/patch.diff
  for f in demo.py demo.sh meta.json; do [ -f $src/$f ] && cp $src/$f $dst/$f; done
  git -C /repo apply --check $dst/patch.diff && echo "$id-$x: patch applies to /repo" || echo "$id-$x: PATCH DOES NOT APPLY"
done
