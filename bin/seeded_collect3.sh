#!/bin/bash
# usage: seeded_collect3.sh C13   -- copy /tmp/mut3_<id>/MUTANT/{a,b} to /verif/seeded/<id>-{e,f}
id=$1
for pair in a:e b:f; do
  x=${pair%%:*}; y=${pair##*:}
  src=/tmp/mut3_$id/MUTANT/$x
  [ -f $src/patch.diff ] || { echo "no $src/patch.diff"; continue; }
  dst=/verif/seeded/$id-$y
  mkdir -p $dst
  cp $src/patch.diff $dst/patch.diff
  for f in demo.py demo.sh meta.json; do [ -f $src/$f ] && cp $src/$f $dst/$f; done
  git -C /repo apply --check $dst/patch.diff && echo "$id-$y: patch applies to /repo" || echo "$id-$y: PATCH DOES NOT APPLY"
done
