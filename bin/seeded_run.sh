#!/bin/bash
# usage: seeded_run.sh <seeded-name> <check-id> [<check-id>...]
# applies /verif/seeded/<name>/patch.diff to /repo, runs the quick checks, undoes the patch.
name=$1; shift
cd /verif
[ -z "$(git -C /repo status --porcelain)" ] || { echo "/repo not clean"; exit 2; }
git -C /repo apply /verif/seeded/$name/patch.diff || exit 2
for c in "$@"; do
  start=$(date +%s)
  out=$(FVH_MAX_VIOL=3 timeout 1500 bin/check $c 2>/dev/null | grep -v "^KNOWN-FINDING")
  code=$?
  n=$(echo "$out" | grep -c "^VIOLATION")
  echo "== $name under $c: $n violations, $(( $(date +%s) - start )) s"
  echo "$out" | grep -A1 "^VIOLATION" | grep -v "^--" | head -4 | cut -c1-400
done
git -C /repo checkout -- .
