#!/bin/bash
# Run checks under CPU contention (developer aid: flushes out timing-dependent false alarms).
# usage: bin/stress_check.sh <hogs> <id>...
hogs=$1; shift
pids=()
for i in $(seq 1 $hogs); do ( while :; do :; done ) & pids+=($!); done
trap 'kill ${pids[@]} 2>/dev/null' EXIT
for id in "$@"; do
  start=$(date +%s)
  out=$(/verif/target/harness/debug/check $id 2>&1 | grep -v "^KNOWN" | cut -c1-300 | head -5)
  echo "== $id $(( $(date +%s) - start )) s: ${out:-silent}"
done
