//! C09/C10 loader robustness as a coverage-guided target: arbitrary bytes as dump.rdb.
//! Oracle: the loader returns (Ok or Err) without panicking and without allocating beyond the
//! malloc limit (run with -malloc_limit_mb=128); whatever it loaded can be saved again, and
//! that second dump loads into an equal number of keys per database (a round trip over the
//! loader's own output).
#![no_main]
use ferrous::storage::{RdbConfig, RdbEngine};
use ferrous::StorageEngine;
use libfuzzer_sys::fuzz_target;
use std::sync::atomic::{AtomicU64, Ordering};

static N: AtomicU64 = AtomicU64::new(0);

fn engine(dir: &std::path::Path, name: &str) -> RdbEngine {
    RdbEngine::new(RdbConfig { auto_save: false, save_rules: vec![], compress_strings: false, filename: name.to_string(), dir: dir.display().to_string() })
}

fuzz_target!(|data: &[u8]| {
    let n = N.fetch_add(1, Ordering::Relaxed);
    let dir = std::env::temp_dir().join(format!("fvh-fuzz-rdb-{}", std::process::id()));
    let _ = std::fs::create_dir_all(&dir);
    let name = format!("in-{}.rdb", n % 4);
    std::fs::write(dir.join(&name), data).unwrap();
    let a = StorageEngine::new_in_memory();
    let loaded = engine(&dir, &name).load(&a);
    if loaded.is_ok() {
        let out = format!("out-{}.rdb", n % 4);
        if engine(&dir, &out).save(&a).is_ok() {
            let b = StorageEngine::new_in_memory();
            engine(&dir, &out).load(&b).expect("a dump written by the server loads");
            for db in 0..16 {
                let ka = a.get_all_keys(db).map(|k| k.len()).unwrap_or(0);
                let kb = b.get_all_keys(db).map(|k| k.len()).unwrap_or(0);
                // keys may expire between the two loads, never appear
                assert!(kb <= ka, "database {}: {} keys after save+load of a dataset that had {}", db, kb, ka);
            }
        }
    }
});
