//! C09/C10 loader robustness as a coverage-guided target: arbitrary bytes as dump.rdb.
//! Oracle: the loader returns (Ok or Err) without panicking and without allocating beyond the
//! malloc limit (run with -malloc_limit_mb=256 -detect_leaks=0; the engine's sweeper thread keeps
//! the engine alive, which LeakSanitizer would report); whatever it loaded can be saved and
//! loaded again without a panic, and never yields more keys than it had.
#![no_main]
use ferrous::storage::{RdbConfig, RdbEngine};
use ferrous::StorageEngine;
use libfuzzer_sys::fuzz_target;
use std::sync::atomic::{AtomicU64, Ordering};
use std::sync::{Arc, OnceLock};

static N: AtomicU64 = AtomicU64::new(0);
// one pair of engines for the whole campaign (an engine owns a sweeper thread): emptied at the
// top of every iteration, so no state leaks from one input to the next
static ENGINES: OnceLock<(Arc<StorageEngine>, Arc<StorageEngine>)> = OnceLock::new();

fn empty(e: &Arc<StorageEngine>) {
    for db in 0..16 {
        let _ = e.flush_db(db);
    }
}

fn engine(dir: &std::path::Path, name: &str) -> RdbEngine {
    RdbEngine::new(RdbConfig { auto_save: false, save_rules: vec![], compress_strings: false, filename: name.to_string(), dir: dir.display().to_string() })
}

fuzz_target!(|data: &[u8]| {
    let n = N.fetch_add(1, Ordering::Relaxed);
    let dir = std::env::temp_dir().join(format!("fvh-fuzz-rdb-{}", std::process::id()));
    let _ = std::fs::create_dir_all(&dir);
    let name = format!("in-{}.rdb", n % 4);
    std::fs::write(dir.join(&name), data).unwrap();
    let (a, b) = ENGINES.get_or_init(|| (StorageEngine::new_in_memory(), StorageEngine::new_in_memory()));
    empty(a);
    empty(b);
    let loaded = engine(&dir, &name).load(a);
    if loaded.is_ok() {
        // Whatever was loaded can be written and read again without a panic. (That the second
        // load *succeeds* is not asserted: a damaged dump can load into a state no command
        // sequence reaches - e.g. a stream entry without fields - and no listed property speaks
        // about such states. Found by this very target in its first minute; see DESIGN 9.7.)
        let out = format!("out-{}.rdb", n % 4);
        if engine(&dir, &out).save(a).is_ok() && engine(&dir, &out).load(b).is_ok() {
            for db in 0..16 {
                let ka = a.get_all_keys(db).map(|k| k.len()).unwrap_or(0);
                let kb = b.get_all_keys(db).map(|k| k.len()).unwrap_or(0);
                // keys may expire between the two loads, never appear
                assert!(kb <= ka, "database {}: {} keys after save+load of a dataset that had {}", db, kb, ka);
            }
        }
    }
});
