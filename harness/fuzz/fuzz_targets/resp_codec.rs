//! C20 as a coverage-guided target. The semantic oracles are inside the target:
//!  (1) totality: any bytes -> frames / need-more / error, no panic (libFuzzer reports panics),
//!      allocation bounded (run with -malloc_limit_mb=64);
//!  (2) chunking independence: the input's first byte chooses a split scheme; feeding the rest
//!      whole and in chunks must give the same frames and the same terminal state;
//!  (3) round trip: every frame the parser produced serialises to bytes that parse back to an
//!      equal frame, consuming exactly those bytes.
#![no_main]
use ferrous::protocol::parser::parse_resp_frame;
use ferrous::protocol::serializer::serialize_to_vec;
use ferrous::protocol::{RespFrame, RespParser};
use libfuzzer_sys::fuzz_target;

fn frame_eq(a: &RespFrame, b: &RespFrame) -> bool {
    use RespFrame::*;
    match (a, b) {
        (Double(x), Double(y)) => (x.is_nan() && y.is_nan()) || x.to_bits() == y.to_bits() || (x == y && *x != 0.0),
        (Array(Some(x)), Array(Some(y))) | (Set(x), Set(y)) => x.len() == y.len() && x.iter().zip(y).all(|(p, q)| frame_eq(p, q)),
        (Map(x), Map(y)) => x.len() == y.len() && x.iter().zip(y).all(|(p, q)| frame_eq(&p.0, &q.0) && frame_eq(&p.1, &q.1)),
        _ => a == b,
    }
}

/// frames produced, and whether the parser ended in error (true) or waiting for more (false)
fn observe(stream: &[u8], chunk: usize) -> (Vec<RespFrame>, bool) {
    let mut p = RespParser::new();
    let mut frames = Vec::new();
    let mut errored = false;
    for piece in stream.chunks(chunk.max(1)) {
        p.feed(piece);
        if errored {
            continue;
        }
        let mut guard = 0;
        loop {
            guard += 1;
            assert!(guard < 200_000, "parse() keeps producing frames without consuming input");
            match p.parse() {
                Ok(Some(f)) => frames.push(f),
                Ok(None) => break,
                Err(_) => {
                    errored = true;
                    break;
                }
            }
        }
    }
    (frames, errored)
}

fn line_safe(f: &RespFrame) -> bool {
    match f {
        RespFrame::SimpleString(b) | RespFrame::Error(b) => !b.iter().any(|c| *c == b'\r' || *c == b'\n'),
        RespFrame::Array(Some(v)) | RespFrame::Set(v) => v.iter().all(line_safe),
        RespFrame::Map(v) => v.iter().all(|(k, x)| line_safe(k) && line_safe(x)),
        _ => true,
    }
}

fuzz_target!(|data: &[u8]| {
    if data.is_empty() {
        return;
    }
    let scheme = data[0];
    let stream = &data[1..];
    let whole = observe(stream, usize::MAX);
    let chunk = match scheme % 4 {
        0 => 1,
        1 => 2 + (scheme as usize >> 2) % 7,
        2 => 1 + stream.len() / 2,
        _ => 1 + (scheme as usize >> 2),
    };
    let parts = observe(stream, chunk);
    assert_eq!(whole.1, parts.1, "terminal state depends on chunking (chunk size {})", chunk);
    assert_eq!(whole.0.len(), parts.0.len(), "number of frames depends on chunking (chunk size {})", chunk);
    for (a, b) in whole.0.iter().zip(&parts.0) {
        assert!(frame_eq(a, b), "frame depends on chunking (chunk size {}): {:?} vs {:?}", chunk, a, b);
    }
    for f in &whole.0 {
        if !line_safe(f) {
            continue;
        }
        let Ok(bytes) = serialize_to_vec(f) else { continue };
        match parse_resp_frame(&bytes) {
            Ok(Some((g, used))) => {
                assert!(frame_eq(f, &g), "round trip changed the frame: {:?} -> {:?}", f, g);
                assert_eq!(used, bytes.len(), "round trip did not consume the whole encoding of {:?}", f);
            }
            other => panic!("the serialisation of {:?} does not parse back: {:?}", f, other.map(|o| o.map(|x| x.1))),
        }
    }
});
