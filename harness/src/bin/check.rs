use fvh::driver::Tier;

fn main() {
    let args: Vec<String> = std::env::args().skip(1).collect();
    if args.is_empty() {
        eprintln!("usage: check <property-id> [--tier quick|thorough] [--replay file] | check serve ...");
        std::process::exit(2);
    }
    if args[0] == "serve" {
        fvh::sut::serve_main(&args[1..]);
    }
    if args[0] == "c20-worker" {
        fvh::childworker::serve(fvh::props::c20::totality_case);
    }
    if args[0] == "c20-nest" {
        fvh::props::c20::nest_child(args[1].parse().unwrap_or(1000));
    }
    let id = args[0].clone();
    let mut tier = match std::env::var("VERIF_TIER").ok().as_deref() {
        Some("thorough") => Tier::Thorough,
        _ => Tier::Quick,
    };
    let mut replay = None;
    let mut i = 1;
    while i < args.len() {
        match args[i].as_str() {
            "--tier" => {
                tier = if args[i + 1] == "thorough" { Tier::Thorough } else { Tier::Quick };
                i += 2;
            }
            "--replay" => {
                let s = std::fs::read_to_string(&args[i + 1]).expect("read replay file");
                replay = Some(serde_json::from_str(&s).expect("parse replay file"));
                i += 2;
            }
            other => {
                eprintln!("unknown argument {}", other);
                std::process::exit(2);
            }
        }
    }
    // library code under test prints to stdout: keep the verdict stream clean
    fvh::out::capture_stdout();
    let seed: u64 = std::env::var("VERIF_SEED").ok().and_then(|s| s.parse::<i64>().ok()).map(|v| v as u64).unwrap_or(1);
    let code = fvh::props::run(&id, tier, seed, replay);
    std::process::exit(code);
}
