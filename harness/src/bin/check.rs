use fvh::driver::Tier;

fn main() {
    let args: Vec<String> = std::env::args().skip(1).collect();
    if args.is_empty() {
        eprintln!("usage: check <property-id> [--tier quick|thorough] [--replay file] | check serve ...");
        std::process::exit(2);
    }
    if args[0] == "serve" {
        fvh::sut::serve_main(&args[1..]);
    }
    if args[0] == "c20-worker" {
        fvh::childworker::serve(fvh::props::c20::totality_case);
    }
    if args[0] == "c20-nest" {
        fvh::props::c20::nest_child(args[1].parse().unwrap_or(1000));
    }
    let id = args[0].clone();
    let mut tier = match std::env::var("VERIF_TIER").ok().as_deref() {
        Some("thorough") => Tier::Thorough,
        _ => Tier::Quick,
    };
    let mut replay = None;
    let mut i = 1;
    while i < args.len() {
        match args[i].as_str() {
            "--tier" => {
                tier = if args[i + 1] == "thorough" { Tier::Thorough } else { Tier::Quick };
                i += 2;
            }
            "--replay" => {
                let s = std::fs::read_to_string(&args[i + 1]).expect("read replay file");
                replay = Some(serde_json::from_str(&s).expect("parse replay file"));
                i += 2;
            }
            other => {
                eprintln!("unknown argument {}", other);
                std::process::exit(2);
            }
        }
    }
    // library code under test prints to stdout: keep the verdict stream clean
    fvh::out::capture_stdout();
    let seed: u64 = std::env::var("VERIF_SEED").ok().and_then(|s| s.parse::<i64>().ok()).map(|v| v as u64).unwrap_or(1);
    // Replay tier: the saved reproductions of every defect that was repaired (and of every
    // seeded change a check had to learn to catch) run first, each in its own process, bypassing
    // the generators. They are plain regression cases: a failure is a violation.
    let mut regress_failed = false;
    if replay.is_none() && std::env::var("FVH_NO_REGRESS").is_err() && std::env::var("FVH_PART").is_err() {
        let dir = std::path::Path::new(env!("CARGO_MANIFEST_DIR")).parent().unwrap().join("regress").join(&id);
        let mut files: Vec<std::path::PathBuf> = std::fs::read_dir(&dir).map(|d| d.filter_map(|e| e.ok()).map(|e| e.path()).filter(|p| p.extension().map_or(false, |x| x == "json")).collect()).unwrap_or_default();
        files.sort();
        let exe = fvh::own_exe();
        let mut passed = 0;
        let mut inconclusive = 0;
        for chunk in files.chunks(8) {
            let children: Vec<_> = chunk
                .iter()
                .map(|f| (f.clone(), std::process::Command::new(&exe).arg(&id).arg("--replay").arg(f).stdout(std::process::Stdio::null()).stderr(std::process::Stdio::null()).spawn()))
                .collect();
            for (f, ch) in children {
                match ch.and_then(|mut c| c.wait()) {
                    Ok(st) if st.code() == Some(0) => passed += 1,
                    Ok(st) if st.code() == Some(1) => {
                        // once more, alone: replays of timing-dependent cases must fail twice
                        let again = std::process::Command::new(&exe).arg(&id).arg("--replay").arg(&f).stdout(std::process::Stdio::null()).stderr(std::process::Stdio::null()).status();
                        if matches!(again, Ok(s) if s.code() == Some(1)) {
                            fvh::outln!("VIOLATION property={} replay={}", id, f.display());
                            fvh::outln!("  regression: a saved reproduction of a repaired defect fails again");
                            regress_failed = true;
                        } else {
                            inconclusive += 1;
                        }
                    }
                    _ => inconclusive += 1,
                }
            }
        }
        if !files.is_empty() {
            eprintln!("regression replays: {} passed, {} inconclusive, of {}", passed, inconclusive, files.len());
        }
    }
    let code = fvh::props::run(&id, tier, seed, replay);
    std::process::exit(if regress_failed && code != 1 { 1 } else { code });
}
