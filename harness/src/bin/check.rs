fn main() { fvh::hello(); }
