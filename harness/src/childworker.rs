//! Line-oriented child worker: runs inputs that may abort the process (allocation failure,
//! stack overflow) in a separate process so that the parent can attribute the death to the
//! input in flight. Protocol: parent writes `<hex>\n`, child answers `ok\n` or `err <msg>\n`.

use std::io::{BufRead, BufReader, Write};
use std::os::unix::process::CommandExt;
use std::process::{Child, ChildStdin, ChildStdout, Command, Stdio};

pub fn hex(b: &[u8]) -> String {
    const D: &[u8; 16] = b"0123456789abcdef";
    let mut s = Vec::with_capacity(b.len() * 2);
    for c in b {
        s.push(D[(c >> 4) as usize]);
        s.push(D[(c & 15) as usize]);
    }
    String::from_utf8(s).unwrap()
}

fn nib(c: u8) -> u8 {
    match c {
        b'0'..=b'9' => c - b'0',
        b'a'..=b'f' => c - b'a' + 10,
        _ => 0,
    }
}

pub fn unhex(s: &str) -> Vec<u8> {
    let b = s.as_bytes();
    (0..b.len() / 2).map(|i| (nib(b[2 * i]) << 4) | nib(b[2 * i + 1])).collect()
}

pub struct ChildWorker {
    mode: String,
    child: Child,
    stdin: ChildStdin,
    stdout: BufReader<ChildStdout>,
    pub restarts: u64,
}

pub enum ChildResult {
    Ok,
    Err(String),
    /// the child process died while handling this input
    Died(String),
}

impl ChildWorker {
    pub fn start(mode: &str) -> Result<ChildWorker, String> {
        let exe = crate::own_exe();
        let mut cmd = Command::new(exe);
        cmd.arg(mode).stdin(Stdio::piped()).stdout(Stdio::piped()).stderr(Stdio::null());
        unsafe {
            cmd.pre_exec(|| {
                libc::prctl(libc::PR_SET_PDEATHSIG, libc::SIGKILL);
                let lim = libc::rlimit { rlim_cur: 8 << 30, rlim_max: 8 << 30 };
                libc::setrlimit(libc::RLIMIT_AS, &lim);
                Ok(())
            });
        }
        let mut child = cmd.spawn().map_err(|e| e.to_string())?;
        let stdin = child.stdin.take().unwrap();
        let stdout = BufReader::new(child.stdout.take().unwrap());
        Ok(ChildWorker { mode: mode.to_string(), child, stdin, stdout, restarts: 0 })
    }

    pub fn run(&mut self, input: &[u8]) -> ChildResult {
        let line = format!("{}\n", hex(input));
        let wrote = self.stdin.write_all(line.as_bytes()).and_then(|_| self.stdin.flush());
        let mut resp = String::new();
        let got = if wrote.is_ok() { self.stdout.read_line(&mut resp).unwrap_or(0) } else { 0 };
        if got == 0 {
            let status = self.child.wait().map(|s| format!("{:?}", s)).unwrap_or_default();
            // restart for the next input
            if let Ok(mut n) = ChildWorker::start(&self.mode) {
                n.restarts = self.restarts + 1;
                *self = n;
            }
            return ChildResult::Died(status);
        }
        let resp = resp.trim_end();
        if resp == "ok" {
            ChildResult::Ok
        } else {
            ChildResult::Err(resp.strip_prefix("err ").unwrap_or(resp).to_string())
        }
    }
}

impl Drop for ChildWorker {
    fn drop(&mut self) {
        let _ = self.child.kill();
        let _ = self.child.wait();
    }
}

/// Child side: read hex lines, apply `f`, print the verdict.
pub fn serve(f: impl Fn(&[u8]) -> Result<(), String>) -> ! {
    std::panic::set_hook(Box::new(|_| {}));
    let stdin = std::io::stdin();
    let stdout = std::io::stdout();
    for line in stdin.lock().lines() {
        let line = match line {
            Ok(l) => l,
            Err(_) => break,
        };
        let input = unhex(line.trim());
        let r = f(&input);
        let mut o = stdout.lock();
        let _ = match r {
            Ok(()) => writeln!(o, "ok"),
            Err(e) => writeln!(o, "err {}", e.replace('\n', " ")),
        };
        let _ = o.flush();
    }
    std::process::exit(0);
}
