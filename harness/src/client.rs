//! Blocking TCP client with explicit outcomes for "no reply", "connection closed" and
//! "malformed reply".

use crate::resp::{self, DecodeError, Frame};
use std::io::{Read, Write};
use std::net::{Shutdown, TcpStream};
use std::time::{Duration, Instant};

#[derive(Clone, PartialEq)]
pub enum Reply {
    Frame(Frame),
    /// The peer closed the connection (EOF / reset) before a complete frame arrived.
    Closed,
    /// Nothing (or only part of a frame) arrived within the deadline.
    Timeout,
    /// Bytes arrived that are not RESP.
    Malformed(DecodeError, Vec<u8>),
}

impl std::fmt::Debug for Reply {
    fn fmt(&self, f: &mut std::fmt::Formatter<'_>) -> std::fmt::Result {
        match self {
            Reply::Frame(fr) => write!(f, "{:?}", fr),
            Reply::Closed => write!(f, "<connection closed>"),
            Reply::Timeout => write!(f, "<no reply>"),
            Reply::Malformed(e, b) => write!(f, "<malformed {:?}: {}>", e, resp::show_bytes(b)),
        }
    }
}

impl Reply {
    pub fn frame(&self) -> Option<&Frame> {
        if let Reply::Frame(f) = self {
            Some(f)
        } else {
            None
        }
    }
    pub fn is_error(&self) -> bool {
        matches!(self, Reply::Frame(Frame::Error(_)))
    }
}

pub struct Client {
    pub stream: TcpStream,
    pub buf: Vec<u8>,
    pub port: u16,
    pub default_timeout: Duration,
    pub eof: bool,
}

impl Client {
    pub fn connect(port: u16) -> std::io::Result<Client> {
        let addr = std::net::SocketAddr::from(([127, 0, 0, 1], port));
        let mut last = None;
        for _ in 0..50 {
            match TcpStream::connect_timeout(&addr, Duration::from_millis(500)) {
                Ok(stream) => {
                    stream.set_nodelay(true)?;
                    return Ok(Client { stream, buf: Vec::new(), port, default_timeout: Duration::from_secs(5), eof: false });
                }
                Err(e) => {
                    last = Some(e);
                    std::thread::sleep(Duration::from_millis(10));
                }
            }
        }
        Err(last.unwrap())
    }

    pub fn send_raw(&mut self, bytes: &[u8]) -> std::io::Result<()> {
        self.stream.write_all(bytes)
    }

    pub fn send_cmd<B: AsRef<[u8]>>(&mut self, args: &[B]) -> std::io::Result<()> {
        let b = resp::encode_cmd(args);
        self.stream.write_all(&b)
    }

    /// Read one frame, waiting at most `timeout`.
    pub fn read_reply(&mut self, timeout: Duration) -> Reply {
        let deadline = Instant::now() + timeout;
        loop {
            match resp::decode(&self.buf) {
                Ok(Some((f, n))) => {
                    self.buf.drain(..n);
                    return Reply::Frame(f);
                }
                Ok(None) => {}
                Err(e) => {
                    let b = std::mem::take(&mut self.buf);
                    return Reply::Malformed(e, b);
                }
            }
            if self.eof {
                return Reply::Closed;
            }
            let now = Instant::now();
            if now >= deadline {
                return Reply::Timeout;
            }
            let _ = self.stream.set_read_timeout(Some((deadline - now).max(Duration::from_millis(1))));
            let mut tmp = [0u8; 65536];
            match self.stream.read(&mut tmp) {
                Ok(0) => {
                    self.eof = true;
                }
                Ok(n) => self.buf.extend_from_slice(&tmp[..n]),
                Err(e) if e.kind() == std::io::ErrorKind::WouldBlock || e.kind() == std::io::ErrorKind::TimedOut => {}
                Err(e) if e.kind() == std::io::ErrorKind::Interrupted => {}
                Err(_) => {
                    self.eof = true;
                }
            }
        }
    }

    pub fn reply(&mut self) -> Reply {
        let t = self.default_timeout;
        self.read_reply(t)
    }

    /// Send a command and read one reply.
    pub fn cmd<B: AsRef<[u8]>>(&mut self, args: &[B]) -> Reply {
        if self.send_cmd(args).is_err() {
            return Reply::Closed;
        }
        self.reply()
    }

    pub fn cmd_s(&mut self, args: &[&str]) -> Reply {
        self.cmd(args)
    }

    /// Read whatever arrives for `dur` (used to look for unsolicited bytes).
    pub fn drain_for(&mut self, dur: Duration) -> Vec<u8> {
        let deadline = Instant::now() + dur;
        loop {
            let now = Instant::now();
            if now >= deadline || self.eof {
                break;
            }
            let _ = self.stream.set_read_timeout(Some((deadline - now).max(Duration::from_millis(1))));
            let mut tmp = [0u8; 65536];
            match self.stream.read(&mut tmp) {
                Ok(0) => self.eof = true,
                Ok(n) => self.buf.extend_from_slice(&tmp[..n]),
                Err(e) if e.kind() == std::io::ErrorKind::WouldBlock || e.kind() == std::io::ErrorKind::TimedOut => {}
                Err(e) if e.kind() == std::io::ErrorKind::Interrupted => {}
                Err(_) => self.eof = true,
            }
        }
        std::mem::take(&mut self.buf)
    }

    pub fn close(&mut self) {
        let _ = self.stream.shutdown(Shutdown::Both);
    }
}
