//! Generated datasets for the persistence checks (C09, C10): all six value types in any
//! database, sizes at the RDB length-encoding boundaries, binary names, strings equal to
//! internal markers, scores at float edges, stream IDs at u64 edges, TTL classes.

use crate::client::{Client, Reply};
use crate::dump::{DEntry, DVal, DbDump, Dump};
use crate::model::stream::Sid;
use crate::model::Bytes;
use ferrous::storage::engine::{GetResult, StorageEngine};
use ferrous::storage::stream::StreamId;
use ferrous::storage::Value;
use proptest::prelude::*;
use proptest::sample::select;
use std::collections::{BTreeMap, BTreeSet, HashMap};
use std::sync::Arc;
use std::time::Duration;

#[derive(Clone, Debug, PartialEq)]
pub enum Ttl {
    None,
    /// milliseconds; long ones never elapse inside a check
    Ms(u64),
}

#[derive(Clone, Debug)]
pub enum Spec {
    Str(Bytes),
    List(Vec<Bytes>),
    Set(BTreeSet<Bytes>),
    Hash(BTreeMap<Bytes, Bytes>),
    ZSet(BTreeMap<Bytes, f64>),
    Stream(Vec<(Sid, BTreeMap<Bytes, Bytes>)>),
}

#[derive(Clone, Debug)]
pub struct Item {
    pub db: usize,
    pub key: Bytes,
    pub val: Spec,
    pub ttl: Ttl,
}

pub type Dataset = Vec<Item>;

pub const MARKER: &[u8] = b"__FERROUS_STREAM_MARKER__";

fn bs(s: &str) -> Bytes {
    s.as_bytes().to_vec()
}

/// Sizes at the 6-bit / 14-bit / 32-bit length-encoding boundaries.
fn boundary_size(big: bool) -> BoxedStrategy<usize> {
    if big {
        prop_oneof![4 => select(vec![1usize, 2, 63, 64, 65, 300]), 2 => select(vec![16383usize, 16384, 16385]), 1 => select(vec![65535usize, 65536, 70000])].boxed()
    } else {
        prop_oneof![6 => select(vec![1usize, 2, 3, 5]), 2 => select(vec![63usize, 64, 65])].boxed()
    }
}

fn element(i: usize, flavour: u8) -> Bytes {
    match flavour % 6 {
        0 => format!("e{}", i).into_bytes(),
        1 => {
            let mut v = format!("{}", i).into_bytes();
            v.extend_from_slice(b"\x00\xff\r\n");
            v
        }
        2 => {
            if i == 0 {
                MARKER.to_vec()
            } else {
                format!("m{}", i).into_bytes()
            }
        }
        3 => {
            // 64-byte elements: one more length-encoding boundary inside collections
            let mut v = format!("{:08}", i).into_bytes();
            v.resize(64, b'x');
            v
        }
        4 => {
            if i == 0 {
                Vec::new()
            } else {
                format!("{}", i).into_bytes()
            }
        }
        _ => format!("élément-{}", i).into_bytes(),
    }
}

fn score(i: usize, flavour: u8) -> f64 {
    let specials = [f64::INFINITY, f64::NEG_INFINITY, -0.0, 0.0, 5e-324, 1e308, -1e308, 1.0000000000000002, 0.1, 4503599627370497.5];
    match flavour % 4 {
        0 => i as f64,
        1 => specials[i % specials.len()] + if i >= specials.len() { (i / specials.len()) as f64 } else { 0.0 },
        2 => 1.0, // all equal: order by member bytes
        _ => -(i as f64) / 3.0,
    }
}

fn key_name() -> BoxedStrategy<Bytes> {
    prop_oneof![
        6 => select(vec![bs("k1"), bs("k2"), bs("k3"), bs("k4"), bs("k5"), bs("k6"), bs("k7"), bs("k8")]),
        2 => select(vec![b"bin\x00\xff\r\n".to_vec(), MARKER.to_vec(), vec![b'K'; 64], vec![b'L'; 16384], b"\xc3\x28".to_vec(), bs("k:é")]),
        1 => proptest::collection::vec(any::<u8>(), 1..20),
    ]
    .boxed()
}

fn ttl() -> BoxedStrategy<Ttl> {
    // long ones: a quarter of an hour, and far beyond every narrower integer a deadline could be
    // squeezed through (2^31 ms = 24.8 days, 2^32 ms = 49.7 days, 2^31 s = 68 years)
    prop_oneof![
        5 => Just(Ttl::None),
        3 => Just(Ttl::Ms(1_000_000)),
        2 => select(vec![2_147_483_648u64, 4_294_967_296, 5_184_000_000, 315_360_000_000, 3_153_600_000_000]).prop_map(Ttl::Ms),
        3 => select(vec![250u64, 600, 1200, 2500]).prop_map(Ttl::Ms)
    ]
    .boxed()
}

fn spec(big: bool) -> BoxedStrategy<Spec> {
    let sz = boundary_size(big);
    prop_oneof![
        3 => (prop_oneof![3 => sz.clone(), 1 => Just(0usize)], any::<u8>(), any::<bool>()).prop_map(|(n, b, marker)| {
            if marker && n < 100 { Spec::Str(MARKER.to_vec()) } else { Spec::Str((0..n).map(|i| b.wrapping_add((i % 251) as u8)).collect()) }
        }),
        2 => (sz.clone(), any::<u8>()).prop_map(|(n, f)| Spec::List((0..n).map(|i| element(i % 97, f)).collect())),
        2 => (sz.clone(), any::<u8>()).prop_map(|(n, f)| Spec::Set((0..n).map(|i| element(i, f)).collect())),
        2 => (sz.clone(), any::<u8>(), any::<u8>()).prop_map(|(n, f, g)| Spec::Hash((0..n).map(|i| (element(i, f), element(i * 3 + 1, g))).collect())),
        2 => (sz.clone(), any::<u8>(), any::<u8>()).prop_map(|(n, f, g)| Spec::ZSet((0..n).map(|i| (element(i, f), score(i, g))).collect())),
        2 => (prop_oneof![3 => select(vec![1usize, 2, 3, 63, 64, 65]), 1 => select(vec![300usize, 1000])], any::<u8>(), 1usize..=8, any::<u8>()).prop_map(|(n, f, nf, idk)| {
            let mut v = Vec::new();
            for i in 0..n {
                let id: Sid = match idk % 4 {
                    0 => (i as u64 + 1, 0),
                    1 => (5, i as u64 + 1),
                    2 => (u64::MAX - n as u64 + i as u64, u64::MAX - 1),
                    _ => (1_700_000_000_000 + i as u64 * 1000, (i % 3) as u64),
                };
                let fields: BTreeMap<Bytes, Bytes> = (0..nf).map(|j| (element(j, f), element(i + j, f.wrapping_add(1)))).collect();
                v.push((id, fields));
            }
            Spec::Stream(v)
        }),
    ]
    .boxed()
}

/// A dataset of 1..max_keys keys; exactly one value may be "big" (multi-byte length encodings).
pub fn dataset(max_keys: usize, dbs: Vec<usize>) -> BoxedStrategy<Dataset> {
    let item = |big: bool| (select(dbs.clone()), key_name(), spec(big), ttl()).prop_map(|(db, key, val, ttl)| Item { db, key, val, ttl });
    (item(true), proptest::collection::vec(item(false), 0..max_keys))
        .prop_map(|(b, mut rest)| {
            rest.insert(0, b);
            // one value per (db, key): later items would overwrite earlier ones
            let mut seen = BTreeSet::new();
            rest.retain(|i| seen.insert((i.db, i.key.clone())));
            rest
        })
        .boxed()
}

fn spec_is_empty(s: &Spec) -> bool {
    match s {
        Spec::Str(_) => false,
        Spec::List(v) => v.is_empty(),
        Spec::Set(v) => v.is_empty(),
        Spec::Hash(v) => v.is_empty(),
        Spec::ZSet(v) => v.is_empty(),
        Spec::Stream(v) => v.is_empty(),
    }
}

pub fn spec_dval(s: &Spec) -> DVal {
    match s {
        Spec::Str(b) => DVal::Str(b.clone()),
        Spec::List(v) => DVal::List(v.clone()),
        Spec::Set(v) => DVal::Set(v.clone()),
        Spec::Hash(v) => DVal::Hash(v.clone()),
        Spec::ZSet(z) => {
            let mut v: Vec<(Bytes, f64)> = z.iter().map(|(m, s)| (m.clone(), *s)).collect();
            v.sort_by(|a, b| a.1.partial_cmp(&b.1).unwrap().then_with(|| a.0.cmp(&b.0)));
            DVal::ZSet(v)
        }
        Spec::Stream(v) => DVal::Stream(v.clone()),
    }
}

/// The dump the dataset should produce (TTL presence only).
pub fn expected_dump(d: &Dataset) -> Dump {
    let mut out = Dump::new();
    for it in d {
        if spec_is_empty(&it.val) {
            continue;
        }
        out.entry(it.db).or_insert_with(DbDump::new).insert(it.key.clone(), DEntry { val: spec_dval(&it.val), pttl: if it.ttl == Ttl::None { None } else { Some(0) } });
    }
    out
}

pub fn labels(d: &Dataset) -> Vec<&'static str> {
    let mut l = BTreeSet::new();
    for it in d {
        let n = match &it.val {
            Spec::Str(b) => b.len(),
            Spec::List(v) => v.len(),
            Spec::Set(v) => v.len(),
            Spec::Hash(v) => v.len(),
            Spec::ZSet(v) => v.len(),
            Spec::Stream(v) => v.len(),
        };
        l.insert(match &it.val {
            Spec::Str(_) => "type:string",
            Spec::List(_) => "type:list",
            Spec::Set(_) => "type:set",
            Spec::Hash(_) => "type:hash",
            Spec::ZSet(_) => "type:zset",
            Spec::Stream(_) => "type:stream",
        });
        if n >= 64 {
            l.insert("len>=64 (14-bit length)");
        }
        if n >= 16384 {
            l.insert("len>=16384 (32-bit length)");
        }
        if it.ttl != Ttl::None {
            l.insert("ttl-key");
        }
        if matches!(it.ttl, Ttl::Ms(ms) if ms < 10_000) {
            l.insert("short-ttl-key");
        }
        if it.db != 0 {
            l.insert("non-zero-db");
        }
        if it.key == MARKER || matches!(&it.val, Spec::Str(b) if b == MARKER) || matches!(&it.val, Spec::List(v) if v.first().map_or(false, |e| e == MARKER)) {
            l.insert("marker-string");
        }
    }
    l.into_iter().collect()
}

pub fn nontrivial(d: &Dataset) -> bool {
    let l = labels(d);
    l.iter().filter(|x| x.starts_with("type:")).count() >= 3 && l.contains(&"len>=64 (14-bit length)") && l.contains(&"ttl-key")
}

// ---------- loading through the client ----------

fn ok(r: Reply, what: &str) -> Result<(), String> {
    match r {
        Reply::Frame(f) if !f.is_error() => Ok(()),
        r => Err(format!("{} -> {:?}", what, r)),
    }
}

fn fmt_score(s: f64) -> Bytes {
    if s == f64::INFINITY {
        b"inf".to_vec()
    } else if s == f64::NEG_INFINITY {
        b"-inf".to_vec()
    } else {
        format!("{:e}", s).into_bytes()
    }
}

pub fn load_via_client(c: &mut Client, d: &Dataset) -> Result<(), String> {
    let mut cur_db = usize::MAX;
    for it in d {
        if it.db != cur_db {
            ok(c.cmd(&[b"SELECT".to_vec(), it.db.to_string().into_bytes()]), "SELECT")?;
            cur_db = it.db;
        }
        let k = &it.key;
        match &it.val {
            Spec::Str(b) => ok(c.cmd(&[b"SET".to_vec(), k.clone(), b.clone()]), "SET")?,
            Spec::List(v) => {
                for ch in v.chunks(500) {
                    let mut a = vec![b"RPUSH".to_vec(), k.clone()];
                    a.extend(ch.iter().cloned());
                    ok(c.cmd(&a), "RPUSH")?;
                }
            }
            Spec::Set(v) => {
                let all: Vec<&Bytes> = v.iter().collect();
                for ch in all.chunks(500) {
                    let mut a = vec![b"SADD".to_vec(), k.clone()];
                    a.extend(ch.iter().map(|x| (*x).clone()));
                    ok(c.cmd(&a), "SADD")?;
                }
            }
            Spec::Hash(v) => {
                let all: Vec<(&Bytes, &Bytes)> = v.iter().collect();
                for ch in all.chunks(250) {
                    let mut a = vec![b"HSET".to_vec(), k.clone()];
                    for (f, x) in ch {
                        a.push((*f).clone());
                        a.push((*x).clone());
                    }
                    ok(c.cmd(&a), "HSET")?;
                }
            }
            Spec::ZSet(v) => {
                let all: Vec<(&Bytes, &f64)> = v.iter().collect();
                for ch in all.chunks(250) {
                    let mut a = vec![b"ZADD".to_vec(), k.clone()];
                    for (m, s) in ch {
                        a.push(fmt_score(**s));
                        a.push((*m).clone());
                    }
                    ok(c.cmd(&a), "ZADD")?;
                }
            }
            Spec::Stream(v) => {
                for (id, fields) in v {
                    let mut a = vec![b"XADD".to_vec(), k.clone(), format!("{}-{}", id.0, id.1).into_bytes()];
                    for (f, x) in fields {
                        a.push(f.clone());
                        a.push(x.clone());
                    }
                    ok(c.cmd(&a), "XADD")?;
                }
            }
        }
        if let Ttl::Ms(ms) = it.ttl {
            if !spec_is_empty(&it.val) {
                ok(c.cmd(&[b"PEXPIRE".to_vec(), k.clone(), ms.to_string().into_bytes()]), "PEXPIRE")?;
            }
        }
    }
    Ok(())
}

// ---------- in-process ----------

pub fn load_into_engine(e: &Arc<StorageEngine>, d: &Dataset) -> Result<(), String> {
    for it in d {
        let (db, k) = (it.db, it.key.clone());
        let r: Result<(), ferrous::FerrousError> = (|| {
            match &it.val {
                Spec::Str(b) => e.set_string(db, k.clone(), b.clone())?,
                Spec::List(v) => {
                    if !v.is_empty() {
                        e.rpush(db, k.clone(), v.clone())?;
                    }
                }
                Spec::Set(v) => {
                    if !v.is_empty() {
                        e.sadd(db, k.clone(), v.iter().cloned().collect())?;
                    }
                }
                Spec::Hash(v) => {
                    if !v.is_empty() {
                        e.hset(db, k.clone(), v.iter().map(|(a, b)| (a.clone(), b.clone())).collect())?;
                    }
                }
                Spec::ZSet(v) => {
                    for (m, s) in v {
                        e.zadd(db, k.clone(), m.clone(), *s)?;
                    }
                }
                Spec::Stream(v) => {
                    for (id, fields) in v {
                        let f: HashMap<Bytes, Bytes> = fields.iter().map(|(a, b)| (a.clone(), b.clone())).collect();
                        e.xadd_with_id(db, k.clone(), StreamId::new(id.0, id.1), f)?;
                    }
                }
            }
            if let Ttl::Ms(ms) = it.ttl {
                if !spec_is_empty(&it.val) {
                    e.expire(db, &k, Duration::from_millis(ms))?;
                }
            }
            Ok(())
        })();
        r.map_err(|x| format!("loading key {}: {}", crate::resp::show_bytes(&it.key), x))?;
    }
    Ok(())
}

pub fn value_dval(v: &Value) -> DVal {
    match v {
        Value::String(b) => DVal::Str(b.clone()),
        Value::List(l) => DVal::List(l.iter().cloned().collect()),
        Value::Set(s) => DVal::Set(s.iter().cloned().collect()),
        Value::Hash(h) => DVal::Hash(h.iter().map(|(a, b)| (a.clone(), b.clone())).collect()),
        Value::SortedSet(z) => {
            let n = z.len();
            DVal::ZSet(if n == 0 { vec![] } else { z.range_by_rank(0, n - 1).items })
        }
        Value::Stream(s) => {
            let r = s.range(&StreamId::min(), &StreamId::max(), None, false);
            DVal::Stream(r.entries.iter().map(|e| ((e.id.millis(), e.id.seq()), e.fields.iter().map(|(a, b)| (a.clone(), b.clone())).collect())).collect())
        }
    }
}

/// Canonical dump of an engine through its public API; `pttl` holds the remaining ms.
pub fn dump_engine(e: &Arc<StorageEngine>) -> Result<Dump, String> {
    let mut out = Dump::new();
    for db in 0..e.database_count() {
        let keys = e.get_all_keys(db).map_err(|x| x.to_string())?;
        if keys.is_empty() {
            continue;
        }
        let mut d = DbDump::new();
        for k in keys {
            if let GetResult::Found(v) = e.get(db, &k).map_err(|x| x.to_string())? {
                let ttl = e.ttl(db, &k).map_err(|x| x.to_string())?;
                d.insert(k, DEntry { val: value_dval(&v), pttl: ttl.map(|t| t.as_millis() as i64) });
            }
        }
        out.insert(db, d);
    }
    Ok(out)
}

pub fn flush_engine(e: &Arc<StorageEngine>) {
    for db in 0..e.database_count() {
        let _ = e.flush_db(db);
    }
}

// ---------- faithful JSON form (replay files) ----------

use crate::driver::{b2j, j2b};
use serde_json::{json, Value as J};

pub fn to_json(d: &Dataset) -> J {
    J::Array(
        d.iter()
            .map(|it| {
                let (ty, items): (&str, J) = match &it.val {
                    Spec::Str(b) => ("string", b2j(b)),
                    Spec::List(v) => ("list", J::Array(v.iter().map(|x| b2j(x)).collect())),
                    Spec::Set(v) => ("set", J::Array(v.iter().map(|x| b2j(x)).collect())),
                    Spec::Hash(v) => ("hash", J::Array(v.iter().map(|(a, b)| json!([b2j(a), b2j(b)])).collect())),
                    Spec::ZSet(v) => ("zset", J::Array(v.iter().map(|(a, s)| json!([b2j(a), format!("{:e}", s)])).collect())),
                    Spec::Stream(v) => ("stream", J::Array(v.iter().map(|(id, f)| json!([id.0.to_string(), id.1.to_string(), f.iter().map(|(a, b)| json!([b2j(a), b2j(b)])).collect::<Vec<_>>()])).collect())),
                };
                json!({"db": it.db, "key": b2j(&it.key), "type": ty, "value": items, "ttl_ms": match it.ttl { Ttl::None => J::Null, Ttl::Ms(ms) => json!(ms) }})
            })
            .collect(),
    )
}

pub fn from_json(v: &J) -> Dataset {
    let mut out = Vec::new();
    for it in v.as_array().cloned().unwrap_or_default() {
        let db = it.get("db").and_then(|x| x.as_u64()).unwrap_or(0) as usize;
        let key = j2b(it.get("key").unwrap_or(&J::Null));
        let ttl = match it.get("ttl_ms").and_then(|x| x.as_u64()) {
            Some(ms) => Ttl::Ms(ms),
            None => Ttl::None,
        };
        let val = it.get("value").cloned().unwrap_or(J::Null);
        let arr = val.as_array().cloned().unwrap_or_default();
        let pair = |p: &J| (j2b(&p[0]), j2b(&p[1]));
        let spec = match it.get("type").and_then(|x| x.as_str()).unwrap_or("") {
            "string" => Spec::Str(j2b(&val)),
            "list" => Spec::List(arr.iter().map(j2b).collect()),
            "set" => Spec::Set(arr.iter().map(j2b).collect()),
            "hash" => Spec::Hash(arr.iter().map(pair).collect()),
            "zset" => Spec::ZSet(arr.iter().map(|p| (j2b(&p[0]), p[1].as_str().unwrap_or("0").parse::<f64>().unwrap_or(0.0))).collect()),
            _ => Spec::Stream(
                arr.iter()
                    .map(|e| {
                        let id = (e[0].as_str().unwrap_or("0").parse().unwrap_or(0), e[1].as_str().unwrap_or("0").parse().unwrap_or(0));
                        (id, e[2].as_array().cloned().unwrap_or_default().iter().map(pair).collect())
                    })
                    .collect(),
            ),
        };
        out.push(Item { db, key, val: spec, ttl });
    }
    out
}
