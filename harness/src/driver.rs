//! Seeded case loop shared by all proptest-driven checks: generation through proptest
//! `Strategy::new_tree`, execution against a per-worker system under test, shrinking by
//! re-execution, replay files, evidence accounting.

use proptest::strategy::{Strategy, ValueTree};
use proptest::test_runner::{Config, RngAlgorithm, TestRng, TestRunner};
use serde_json::{json, Value};
use std::collections::hash_map::DefaultHasher;
use std::collections::{BTreeMap, HashSet};
use std::hash::{Hash, Hasher};
use std::path::PathBuf;
use std::sync::Mutex;
use std::time::Instant;

#[derive(Clone, Copy, Debug, PartialEq)]
pub enum Tier {
    Quick,
    Thorough,
}

impl Tier {
    pub fn name(&self) -> &'static str {
        match self {
            Tier::Quick => "quick",
            Tier::Thorough => "thorough",
        }
    }
    pub fn pick<T>(&self, quick: T, thorough: T) -> T {
        match self {
            Tier::Quick => quick,
            Tier::Thorough => thorough,
        }
    }
}

#[derive(Debug, Clone)]
pub enum Verdict {
    Pass,
    /// the property was violated; `sig` is a short stable signature (command / divergence kind)
    Fail { what: String, sig: String },
    /// infrastructure trouble: the case says nothing about the property
    Infra(String),
}

#[derive(Debug, Clone)]
pub struct CaseResult {
    pub verdict: Verdict,
    pub labels: Vec<String>,
    pub nontrivial: bool,
    /// (finding id, number of steps skipped because that finding's exclusion is active)
    pub excluded: Vec<(String, u64)>,
    /// the case as executed (with replies), for evidence samples
    pub trace: Option<Value>,
}

impl CaseResult {
    pub fn pass() -> CaseResult {
        CaseResult { verdict: Verdict::Pass, labels: vec![], nontrivial: false, excluded: vec![], trace: None }
    }
    pub fn fail(what: impl Into<String>, sig: impl Into<String>) -> CaseResult {
        CaseResult { verdict: Verdict::Fail { what: what.into(), sig: sig.into() }, labels: vec![], nontrivial: false, excluded: vec![], trace: None }
    }
    pub fn infra(what: impl Into<String>) -> CaseResult {
        CaseResult { verdict: Verdict::Infra(what.into()), labels: vec![], nontrivial: false, excluded: vec![], trace: None }
    }
    pub fn is_fail(&self) -> bool {
        matches!(self.verdict, Verdict::Fail { .. })
    }
}

pub struct Evidence {
    pub property: String,
    pub tier: Tier,
    pub seed: u64,
    pub level: String,
    pub rule: String,
    pub evaluations: u64,
    pub nontrivial: HashSet<u64>,
    pub labels: BTreeMap<String, u64>,
    pub samples: Vec<Value>,
    pub excluded: BTreeMap<String, u64>,
    pub known_findings: Vec<String>,
    pub violations: Vec<Value>,
    pub infra: Vec<String>,
    pub assumptions: Vec<String>,
    pub extra: serde_json::Map<String, Value>,
    pub started: Instant,
    pub max_samples: usize,
}

impl Evidence {
    pub fn new(property: &str, tier: Tier, seed: u64, level: &str, rule: &str) -> Evidence {
        Evidence {
            property: property.to_string(),
            tier,
            seed,
            level: level.to_string(),
            rule: rule.to_string(),
            evaluations: 0,
            nontrivial: HashSet::new(),
            labels: BTreeMap::new(),
            samples: Vec::new(),
            excluded: BTreeMap::new(),
            known_findings: Vec::new(),
            violations: Vec::new(),
            infra: Vec::new(),
            assumptions: Vec::new(),
            extra: serde_json::Map::new(),
            started: Instant::now(),
            max_samples: 4,
        }
    }

    pub fn record(&mut self, case_hash: u64, r: &CaseResult) {
        self.evaluations += 1;
        for l in &r.labels {
            *self.labels.entry(l.clone()).or_insert(0) += 1;
        }
        for (f, n) in &r.excluded {
            *self.excluded.entry(f.clone()).or_insert(0) += n;
        }
        if r.nontrivial {
            let new = self.nontrivial.insert(case_hash);
            if new && self.samples.len() < self.max_samples {
                if let Some(t) = &r.trace {
                    self.samples.push(t.clone());
                }
            }
        }
        if let Verdict::Infra(m) = &r.verdict {
            if self.infra.len() < 20 {
                self.infra.push(m.clone());
            }
        }
    }

    pub fn add_sample(&mut self, v: Value) {
        if self.samples.len() < self.max_samples + 4 {
            self.samples.push(v);
        }
    }

    pub fn count_label(&mut self, l: &str, n: u64) {
        *self.labels.entry(l.to_string()).or_insert(0) += n;
    }

    /// Record a violation: writes the replay file, prints the VIOLATION line.
    pub fn violation(&mut self, what: &str, sig: &str, replay: Value) {
        let dir = PathBuf::from("/verif/evidence/replays").join(&self.property);
        let _ = std::fs::create_dir_all(&dir);
        let mut h = DefaultHasher::new();
        replay.to_string().hash(&mut h);
        let path = dir.join(format!("{:016x}.json", h.finish()));
        let doc = json!({"property": self.property, "seed": self.seed, "what": what, "signature": sig, "case": replay});
        let first = !path.exists() || !self.violations.iter().any(|v| v.get("replay").and_then(|r| r.as_str()) == Some(&path.display().to_string()));
        let _ = std::fs::write(&path, serde_json::to_string_pretty(&doc).unwrap());
        if first {
            crate::out::line(&format!("VIOLATION property={} replay={}", self.property, path.display()));
            crate::out::err(&format!("  {}: {}", sig, what));
        }
        if self.violations.len() < 50 {
            self.violations.push(json!({"what": what, "signature": sig, "replay": path.display().to_string()}));
        }
    }

    pub fn known(&mut self, finding_id: &str, what: &str) {
        crate::out::line(&format!("KNOWN-FINDING: property={} {} {}", self.property, finding_id, what));
        self.known_findings.push(format!("{} {}", finding_id, what));
    }

    pub fn write(&self) -> std::io::Result<()> {
        let mut cov = serde_json::Map::new();
        cov.insert("evaluations".into(), json!(self.evaluations));
        cov.insert("distinct_nontrivial".into(), json!(self.nontrivial.len()));
        cov.insert("rule".into(), json!(self.rule));
        cov.insert("samples".into(), Value::Array(self.samples.clone()));
        cov.insert("labels".into(), json!(self.labels));
        cov.insert("excluded_by_finding".into(), json!(self.excluded));
        cov.insert("known_findings_seen".into(), json!(self.known_findings));
        cov.insert("violation_details".into(), Value::Array(self.violations.clone()));
        if !self.infra.is_empty() {
            cov.insert("inconclusive".into(), json!(self.infra));
        }
        for (k, v) in &self.extra {
            cov.insert(k.clone(), v.clone());
        }
        let doc = json!({
            "property_id": self.property,
            "tier": self.tier.name(),
            "seed": self.seed,
            "level": self.level,
            "coverage": Value::Object(cov),
            "assumptions": self.assumptions,
            "wall_s": self.started.elapsed().as_secs_f64(),
            "violations": self.violations.len(),
        });
        let _ = std::fs::create_dir_all("/verif/evidence");
        std::fs::write(format!("/verif/evidence/{}.json", self.property), serde_json::to_string_pretty(&doc).unwrap())
    }

    /// Write this evidence in a mergeable form (for checks split over child processes).
    pub fn write_partial(&self, path: &str) -> std::io::Result<()> {
        let doc = json!({
            "evaluations": self.evaluations,
            "nontrivial": self.nontrivial.iter().collect::<Vec<_>>(),
            "labels": self.labels,
            "samples": self.samples,
            "excluded": self.excluded,
            "known_findings": self.known_findings,
            "violations": self.violations,
            "infra": self.infra,
            "extra": self.extra,
        });
        std::fs::write(path, doc.to_string())
    }

    /// Merge a file written by `write_partial`.
    pub fn merge_partial(&mut self, path: &str) -> bool {
        let v: Value = match std::fs::read_to_string(path).ok().and_then(|s| serde_json::from_str(&s).ok()) {
            Some(v) => v,
            None => return false,
        };
        self.evaluations += v["evaluations"].as_u64().unwrap_or(0);
        for h in v["nontrivial"].as_array().cloned().unwrap_or_default() {
            if let Some(h) = h.as_u64() {
                self.nontrivial.insert(h);
            }
        }
        if let Some(m) = v["labels"].as_object() {
            for (k, n) in m {
                *self.labels.entry(k.clone()).or_insert(0) += n.as_u64().unwrap_or(0);
            }
        }
        for s in v["samples"].as_array().cloned().unwrap_or_default() {
            if self.samples.len() < self.max_samples + 6 {
                self.samples.push(s);
            }
        }
        if let Some(m) = v["excluded"].as_object() {
            for (k, n) in m {
                *self.excluded.entry(k.clone()).or_insert(0) += n.as_u64().unwrap_or(0);
            }
        }
        for k in v["known_findings"].as_array().cloned().unwrap_or_default() {
            if let Some(k) = k.as_str() {
                if !self.known_findings.iter().any(|x| x == k) {
                    self.known_findings.push(k.to_string());
                }
            }
        }
        for x in v["violations"].as_array().cloned().unwrap_or_default() {
            self.violations.push(x);
        }
        for x in v["infra"].as_array().cloned().unwrap_or_default() {
            if let Some(x) = x.as_str() {
                self.infra.push(x.to_string());
            }
        }
        if let Some(m) = v["extra"].as_object() {
            for (k, x) in m {
                self.extra.insert(k.clone(), x.clone());
            }
        }
        let _ = std::fs::remove_file(path);
        true
    }

    /// Exit code for the run: 1 if any violation, 2 if nothing but infrastructure trouble, else 0.
    pub fn exit_code(&self) -> i32 {
        if !self.violations.is_empty() {
            1
        } else if self.evaluations == 0 || (!self.infra.is_empty() && self.infra.len() as u64 * 4 > self.evaluations) {
            2
        } else {
            0
        }
    }
}

pub fn hash_debug<T: std::fmt::Debug>(t: &T) -> u64 {
    let mut h = DefaultHasher::new();
    format!("{:?}", t).hash(&mut h);
    h.finish()
}

pub fn seeded_runner(seed: u64, stream: u64) -> TestRunner {
    let mut bytes = [0u8; 32];
    let s = seed.wrapping_mul(0x9E3779B97F4A7C15).wrapping_add(stream.wrapping_mul(0xD1B54A32D192ED03)).wrapping_add(0x2545F4914F6CDD1D);
    for i in 0..4 {
        let x = s.rotate_left(i as u32 * 16).wrapping_mul(0x9E3779B97F4A7C15 ^ (i as u64 + 1));
        bytes[i * 8..i * 8 + 8].copy_from_slice(&x.to_le_bytes());
    }
    let rng = TestRng::from_seed(RngAlgorithm::ChaCha, &bytes);
    let cfg = Config { failure_persistence: None, ..Config::default() };
    TestRunner::new_with_rng(cfg, rng)
}

pub struct LoopCfg {
    pub cases: u64,
    pub workers: usize,
    pub max_shrink_execs: u32,
    /// stop generating after this many violations (each is still shrunk and reported)
    pub max_violations: usize,
}

/// The shared case loop. `mk_strategy` is called once per worker; `mk_worker` builds the
/// per-worker system under test; `exec` runs one case (it must reset the SUT itself).
pub fn run_cases<C, W, S>(
    ev: &Mutex<Evidence>,
    cfg: &LoopCfg,
    mk_strategy: impl Fn() -> S + Sync,
    mk_worker: impl Fn(usize) -> Result<W, String> + Sync,
    exec: impl Fn(&mut W, &C) -> CaseResult + Sync,
    to_json: impl Fn(&C) -> Value + Sync,
) where
    C: std::fmt::Debug + Clone,
    S: Strategy<Value = C>,
{
    let seed = ev.lock().unwrap().seed;
    let workers = cfg.workers.max(1);
    let n_viol = std::sync::atomic::AtomicUsize::new(0);
    std::thread::scope(|scope| {
        for wi in 0..workers {
            let mk_strategy = &mk_strategy;
            let mk_worker = &mk_worker;
            let exec = &exec;
            let to_json = &to_json;
            let n_viol = &n_viol;
            scope.spawn(move || {
                let mut w = match mk_worker(wi) {
                    Ok(w) => w,
                    Err(e) => {
                        ev.lock().unwrap().infra.push(format!("worker {} could not start: {}", wi, e));
                        return;
                    }
                };
                let strat = mk_strategy();
                let mut runner = seeded_runner(seed, wi as u64 + 1);
                let share = cfg.cases / workers as u64 + if (wi as u64) < cfg.cases % workers as u64 { 1 } else { 0 };
                for _ in 0..share {
                    if n_viol.load(std::sync::atomic::Ordering::Relaxed) >= cfg.max_violations {
                        break;
                    }
                    let mut tree = match strat.new_tree(&mut runner) {
                        Ok(t) => t,
                        Err(e) => {
                            ev.lock().unwrap().infra.push(format!("generator rejected: {}", e));
                            continue;
                        }
                    };
                    let case = tree.current();
                    let r = exec(&mut w, &case);
                    ev.lock().unwrap().record(hash_debug(&case), &r);
                    if r.is_fail() {
                        // shrink by re-execution
                        let mut best_case = case.clone();
                        let mut best = r.clone();
                        let mut execs = 0u32;
                        let shrink_started = Instant::now();
                        'outer: while execs < cfg.max_shrink_execs && shrink_started.elapsed().as_secs() < 90 && tree.simplify() {
                            loop {
                                let c = tree.current();
                                let rr = exec(&mut w, &c);
                                execs += 1;
                                if rr.is_fail() {
                                    best_case = c;
                                    best = rr;
                                    break;
                                }
                                if execs >= cfg.max_shrink_execs || !tree.complicate() {
                                    break 'outer;
                                }
                            }
                        }
                        if let Verdict::Fail { what, sig } = &best.verdict {
                            n_viol.fetch_add(1, std::sync::atomic::Ordering::Relaxed);
                            let mut e = ev.lock().unwrap();
                            let mut j = to_json(&best_case);
                            if let (Some(o), Some(t)) = (j.as_object_mut(), best.trace.clone()) {
                                o.insert("trace".into(), t);
                            }
                            e.violation(what, sig, j);
                        }
                    }
                }
            });
        }
    });
}

// ---------- bytes <-> JSON (latin-1 mapping keeps ASCII readable and every byte reversible) ----------

pub fn b2j(b: &[u8]) -> Value {
    Value::String(b.iter().map(|&c| c as char).collect())
}

pub fn j2b(v: &Value) -> Vec<u8> {
    v.as_str().unwrap_or("").chars().map(|c| c as u32 as u8).collect()
}

pub fn cmd2j(c: &[Vec<u8>]) -> Value {
    Value::Array(c.iter().map(|a| b2j(a)).collect())
}

pub fn j2cmd(v: &Value) -> Vec<Vec<u8>> {
    v.as_array().map(|a| a.iter().map(j2b).collect()).unwrap_or_default()
}
