//! Canonical dataset dump through the client protocol, and its comparison with the model /
//! with another dump.

use crate::client::{Client, Reply};
use crate::model::stream::{parse_id, Sid};
use crate::model::{Bytes, Val, World};
use crate::resp::{show_bytes, Frame};
use std::collections::{BTreeMap, BTreeSet};

#[derive(Clone, Debug, PartialEq)]
pub enum DVal {
    Str(Bytes),
    List(Vec<Bytes>),
    Set(BTreeSet<Bytes>),
    Hash(BTreeMap<Bytes, Bytes>),
    /// ordered as returned by ZRANGE 0 -1 WITHSCORES
    ZSet(Vec<(Bytes, f64)>),
    Stream(Vec<(Sid, BTreeMap<Bytes, Bytes>)>),
    Other(String),
}

#[derive(Clone, Debug, PartialEq)]
pub struct DEntry {
    pub val: DVal,
    /// PTTL reply when >= 0
    pub pttl: Option<i64>,
}

pub type DbDump = BTreeMap<Bytes, DEntry>;
pub type Dump = BTreeMap<usize, DbDump>;

fn bulk_list(r: &Reply) -> Result<Vec<Bytes>, String> {
    match r {
        Reply::Frame(Frame::Array(v)) => v
            .iter()
            .map(|f| f.as_bytes().map(|b| b.to_vec()).ok_or_else(|| format!("non-string element in {:?}", r)))
            .collect(),
        _ => Err(format!("expected array, got {:?}", r)),
    }
}

/// Dump the given databases. Any protocol-level surprise is returned as Err(description).
pub fn dump_server(c: &mut Client, dbs: &[usize]) -> Result<Dump, String> {
    let mut out = Dump::new();
    for &db in dbs {
        let r = c.cmd(&[b"SELECT".as_ref(), db.to_string().as_bytes()]);
        if !matches!(&r, Reply::Frame(Frame::Simple(s)) if s == b"OK") {
            return Err(format!("dump: SELECT {} -> {:?}", db, r));
        }
        let keys = bulk_list(&c.cmd(&[b"KEYS".as_ref(), b"*"])).map_err(|e| format!("dump: KEYS *: {}", e))?;
        let mut d = DbDump::new();
        for k in keys {
            let t = c.cmd(&[b"TYPE".as_ref(), &k]);
            let tn = match &t {
                Reply::Frame(f) => f.as_bytes().map(|b| String::from_utf8_lossy(b).to_string()),
                _ => None,
            }
            .ok_or_else(|| format!("dump: TYPE {} -> {:?}", show_bytes(&k), t))?;
            let val = match tn.as_str() {
                "string" => match c.cmd(&[b"GET".as_ref(), &k]) {
                    Reply::Frame(Frame::Bulk(b)) => DVal::Str(b),
                    // expired between TYPE and GET
                    Reply::Frame(Frame::NullBulk) => continue,
                    r => return Err(format!("dump: GET {} -> {:?}", show_bytes(&k), r)),
                },
                "list" => DVal::List(bulk_list(&c.cmd(&[b"LRANGE".as_ref(), &k, b"0", b"-1"])).map_err(|e| format!("dump: LRANGE {}: {}", show_bytes(&k), e))?),
                "set" => DVal::Set(bulk_list(&c.cmd(&[b"SMEMBERS".as_ref(), &k])).map_err(|e| format!("dump: SMEMBERS {}: {}", show_bytes(&k), e))?.into_iter().collect()),
                "hash" => {
                    let v = bulk_list(&c.cmd(&[b"HGETALL".as_ref(), &k])).map_err(|e| format!("dump: HGETALL {}: {}", show_bytes(&k), e))?;
                    if v.len() % 2 != 0 {
                        return Err(format!("dump: HGETALL {} odd length", show_bytes(&k)));
                    }
                    DVal::Hash(v.chunks(2).map(|p| (p[0].clone(), p[1].clone())).collect())
                }
                "zset" => {
                    let v = bulk_list(&c.cmd(&[b"ZRANGE".as_ref(), &k, b"0", b"-1", b"WITHSCORES"])).map_err(|e| format!("dump: ZRANGE {}: {}", show_bytes(&k), e))?;
                    if v.len() % 2 != 0 {
                        return Err(format!("dump: ZRANGE {} odd length", show_bytes(&k)));
                    }
                    let mut z = Vec::new();
                    for p in v.chunks(2) {
                        let s = std::str::from_utf8(&p[1]).ok().and_then(|s| s.parse::<f64>().ok()).ok_or_else(|| format!("dump: bad score {}", show_bytes(&p[1])))?;
                        z.push((p[0].clone(), s));
                    }
                    DVal::ZSet(z)
                }
                "stream" => {
                    let r = c.cmd(&[b"XRANGE".as_ref(), &k, b"-", b"+"]);
                    let mut es = Vec::new();
                    match &r {
                        Reply::Frame(Frame::Array(v)) => {
                            for e in v {
                                let p = e.as_array().filter(|p| p.len() == 2).ok_or_else(|| format!("dump: XRANGE entry {:?}", e))?;
                                let id = p[0].as_bytes().and_then(parse_id).ok_or_else(|| format!("dump: XRANGE id {:?}", p[0]))?;
                                let fv = p[1].as_array().ok_or_else(|| format!("dump: XRANGE fields {:?}", p[1]))?;
                                let mut m = BTreeMap::new();
                                for q in fv.chunks(2) {
                                    if q.len() == 2 {
                                        m.insert(q[0].as_bytes().unwrap_or(b"?").to_vec(), q[1].as_bytes().unwrap_or(b"?").to_vec());
                                    }
                                }
                                es.push((id, m));
                            }
                        }
                        _ => return Err(format!("dump: XRANGE {} -> {:?}", show_bytes(&k), r)),
                    }
                    DVal::Stream(es)
                }
                // the key vanished between KEYS and TYPE (expired): skip it
                "none" => continue,
                other => DVal::Other(other.to_string()),
            };
            // a collection that expired between TYPE and the read comes back empty
            match &val {
                DVal::List(v) if v.is_empty() => continue,
                DVal::Set(v) if v.is_empty() => continue,
                DVal::Hash(v) if v.is_empty() => continue,
                DVal::ZSet(v) if v.is_empty() => continue,
                _ => {}
            }
            let pttl = match c.cmd(&[b"PTTL".as_ref(), &k]) {
                Reply::Frame(Frame::Int(i)) if i >= 0 => Some(i),
                Reply::Frame(Frame::Int(-1)) => None,
                Reply::Frame(Frame::Int(-2)) => continue,
                r => return Err(format!("dump: PTTL {} -> {:?}", show_bytes(&k), r)),
            };
            d.insert(k, DEntry { val, pttl });
        }
        out.insert(db, d);
    }
    Ok(out)
}

pub fn model_dval(v: &Val) -> DVal {
    match v {
        Val::Str(s) => DVal::Str(s.clone()),
        Val::List(l) => DVal::List(l.iter().cloned().collect()),
        Val::Set(s) => DVal::Set(s.clone()),
        Val::Hash(h) => DVal::Hash(h.clone()),
        Val::ZSet(z) => DVal::ZSet(crate::model::zset::ordered(z)),
        Val::Stream(s) => DVal::Stream(s.entries.iter().map(|(id, f)| (*id, f.iter().cloned().collect())).collect()),
    }
}

pub fn dump_model(w: &mut World, dbs: &[usize]) -> Dump {
    let mut out = Dump::new();
    for &db in dbs {
        let amb = w.ambiguous;
        w.resolve_all(db);
        w.ambiguous = amb;
        let mut d = DbDump::new();
        for (k, e) in &w.dbs[db].keys {
            d.insert(k.clone(), DEntry { val: model_dval(&e.val), pttl: e.ttl.map(|_| 0) });
        }
        out.insert(db, d);
    }
    out
}

fn dval_eq(a: &DVal, b: &DVal) -> bool {
    match (a, b) {
        (DVal::ZSet(x), DVal::ZSet(y)) => x.len() == y.len() && x.iter().zip(y).all(|(p, q)| p.0 == q.0 && p.1 == q.1),
        _ => a == b,
    }
}

fn show_dval(v: &DVal) -> String {
    let s = format!("{:?}", v);
    if s.len() > 400 {
        format!("{}...", &s[..400])
    } else {
        s
    }
}

/// Compare two dumps: keys, types, values; TTL presence only. Returns the first difference.
pub fn diff(expected: &Dump, got: &Dump) -> Option<String> {
    for (db, e) in expected {
        let empty = DbDump::new();
        let g = got.get(db).unwrap_or(&empty);
        for (k, ev) in e {
            match g.get(k) {
                None => return Some(format!("db {} key \"{}\": expected {} but the key is absent", db, show_bytes(k), show_dval(&ev.val))),
                Some(gv) => {
                    if !dval_eq(&ev.val, &gv.val) {
                        return Some(format!("db {} key \"{}\": expected {} got {}", db, show_bytes(k), show_dval(&ev.val), show_dval(&gv.val)));
                    }
                    if ev.pttl.is_some() != gv.pttl.is_some() {
                        return Some(format!(
                            "db {} key \"{}\": expected {} got {}",
                            db,
                            show_bytes(k),
                            if ev.pttl.is_some() { "a TTL" } else { "no TTL" },
                            if gv.pttl.is_some() { "a TTL" } else { "no TTL" }
                        ));
                    }
                }
            }
        }
        for (k, gv) in g {
            if !e.contains_key(k) {
                return Some(format!("db {} key \"{}\": expected absent but found {}", db, show_bytes(k), show_dval(&gv.val)));
            }
        }
    }
    for (db, g) in got {
        if !expected.contains_key(db) && !g.is_empty() {
            return Some(format!("db {}: expected empty, found {} keys", db, g.len()));
        }
    }
    None
}
