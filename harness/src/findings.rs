//! Known findings: `/verif/known_findings.json` (committed, never written at run time) lists
//! entries `{id, property, status: "open"|"fixed", what_fails, signature, commit?}`.
//! An open entry whose probe still reproduces is printed as a KNOWN-FINDING line and activates
//! that finding's narrow exclusion; an entry whose probe no longer reproduces stays inactive,
//! so the full domain is searched again. Fixed entries suppress nothing.

use serde_json::Value;
use std::collections::{BTreeMap, BTreeSet};

#[derive(Clone, Debug)]
pub struct Finding {
    pub id: String,
    pub properties: Vec<String>,
    pub status: String,
    pub what_fails: String,
}

pub struct Findings {
    pub all: BTreeMap<String, Finding>,
}

impl Findings {
    pub fn load() -> Findings {
        let mut all = BTreeMap::new();
        if let Ok(s) = std::fs::read_to_string("/verif/known_findings.json") {
            if let Ok(v) = serde_json::from_str::<Value>(&s) {
                if let Some(a) = v.get("findings").and_then(|f| f.as_array()) {
                    for f in a {
                        let id = f.get("id").and_then(|x| x.as_str()).unwrap_or("").to_string();
                        let props = match f.get("property") {
                            Some(Value::String(s)) => vec![s.clone()],
                            Some(Value::Array(a)) => a.iter().filter_map(|x| x.as_str().map(|s| s.to_string())).collect(),
                            _ => vec![],
                        };
                        let status = f.get("status").and_then(|x| x.as_str()).unwrap_or("open").to_string();
                        let what = f.get("what_fails").and_then(|x| x.as_str()).unwrap_or("").to_string();
                        if !id.is_empty() {
                            all.insert(id.clone(), Finding { id, properties: props, status, what_fails: what });
                        }
                    }
                }
            }
        }
        Findings { all }
    }

    /// Open findings listed for `property`.
    pub fn open_for(&self, property: &str) -> Vec<Finding> {
        self.all.values().filter(|f| f.status == "open" && f.properties.iter().any(|p| p == property)).cloned().collect()
    }
}

/// The set of findings whose exclusion is active in this run.
#[derive(Clone, Debug, Default)]
pub struct Active {
    pub ids: BTreeSet<String>,
}

impl Active {
    pub fn has(&self, id: &str) -> bool {
        self.ids.contains(id)
    }
}
