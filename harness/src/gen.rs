//! proptest strategies shared by the command-history checks: colliding key/value pools,
//! boundary numbers, and per-family command generators. Everything is built by construction
//! (no filters); `select` shrinks toward the first pool element.

use crate::model::{Bytes, Cmd};
use proptest::prelude::*;
use proptest::sample::select;
use proptest::strategy::BoxedStrategy;

pub fn bs(s: &str) -> Bytes {
    s.as_bytes().to_vec()
}

pub fn c(parts: Vec<Bytes>) -> Cmd {
    parts
}

/// Small pool of key names built to collide: short ASCII, empty, binary, CR/LF, invalid
/// UTF-8, long, and a name equal to an internal marker.
pub fn key_pool() -> Vec<Bytes> {
    vec![
        bs("k"),
        bs("j"),
        bs("kk"),
        bs("key:3"),
        b"a\r\nb".to_vec(),
        b"\xff\x00bin".to_vec(),
        vec![b'L'; 300],
        bs("__FERROUS_STREAM_MARKER__"),
        b"k\xc3\xa9".to_vec(),
        bs(""),
    ]
}

/// Keys, weighted toward the first few so that type clashes and overwrites are frequent.
pub fn key() -> BoxedStrategy<Bytes> {
    let pool = key_pool();
    prop_oneof![
        6 => select(pool[..3].to_vec()),
        3 => select(pool[..9].to_vec()),
        // the empty key is its own (labelled) class
        1 => Just(pool[9].clone()),
    ]
    .boxed()
}

/// Keys without the empty key (for checks that are not about key syntax).
pub fn key_nonempty() -> BoxedStrategy<Bytes> {
    let pool = key_pool();
    prop_oneof![
        6 => select(pool[..3].to_vec()),
        3 => select(pool[..9].to_vec()),
    ]
    .boxed()
}

pub fn small_values() -> Vec<Bytes> {
    vec![
        bs("v"),
        bs(""),
        bs("0"),
        bs("1"),
        bs("-1"),
        bs("10"),
        bs("abc"),
        bs("hello world"),
        bs("+5"),
        bs("007"),
        bs(" 5"),
        bs("5 "),
        bs("-0"),
        bs("1e3"),
        bs("0x10"),
        bs("3.5"),
        bs("9223372036854775807"),
        bs("-9223372036854775808"),
        bs("9223372036854775808"),
        bs("-9223372036854775809"),
        bs("9223372036854775806"),
        b"a\r\nb".to_vec(),
        b"\r\n+OK\r\n".to_vec(),
        b"\x00\xff\xfe".to_vec(),
        bs("__FERROUS_STREAM_MARKER__"),
    ]
}

pub fn value() -> BoxedStrategy<Bytes> {
    prop_oneof![
        20 => select(small_values()),
        3 => proptest::collection::vec(any::<u8>(), 0..24),
        1 => (0u8..=255, prop_oneof![Just(1000usize), Just(65536), Just(70_000)]).prop_map(|(b, n)| vec![b; n]),
    ]
    .boxed()
}

/// Short member / field / element names (duplicates are the point).
pub fn member() -> BoxedStrategy<Bytes> {
    prop_oneof![
        12 => select(vec![bs("a"), bs("b"), bs("c"), bs("d"), bs("e"), bs("")]),
        3 => select(small_values()),
        1 => proptest::collection::vec(any::<u8>(), 0..6),
    ]
    .boxed()
}

/// Integer arguments: dense around zero (collections are small, so this covers every
/// boundary relative to the current length), i64 edges, one beyond, and non-integers.
pub fn int_arg() -> BoxedStrategy<Bytes> {
    prop_oneof![
        16 => (-8i64..=8).prop_map(|i| i.to_string().into_bytes()),
        4 => select(vec![20i64, -20, 100, -100, 1000]).prop_map(|i| i.to_string().into_bytes()),
        4 => select(vec![
            bs("9223372036854775807"),
            bs("-9223372036854775808"),
            bs("9223372036854775806"),
            bs("-9223372036854775807"),
            bs("4294967296"),
            bs("-4294967296"),
            bs("2147483648"),
        ]),
        2 => select(vec![bs("9223372036854775808"), bs("-9223372036854775809"), bs("18446744073709551615"), bs("18446744073709551616"), bs("99999999999999999999")]),
        2 => select(vec![bs("abc"), bs(""), bs("1.5"), bs(" 1"), bs("1 "), bs("+1"), bs("01"), bs("-"), bs("1e2"), b"1\x00".to_vec()]),
    ]
    .boxed()
}

/// Small, always-valid integers.
pub fn small_int() -> BoxedStrategy<Bytes> {
    (-8i64..=8).prop_map(|i| i.to_string().into_bytes()).boxed()
}

/// Expire-time arguments. Valid ones are long enough (>= 1000 s) that nothing expires inside a
/// case; invalid ones are zero, negative, non-numeric, or beyond i64.
pub fn long_ttl_arg(unit_ms: bool) -> BoxedStrategy<Bytes> {
    let valid: Vec<Bytes> = if unit_ms { vec![bs("1000000"), bs("5000000"), bs("2147483648")] } else { vec![bs("1000"), bs("5000"), bs("100000")] };
    prop_oneof![
        8 => select(valid),
        3 => select(vec![bs("0"), bs("-1"), bs("abc"), bs(""), bs("1.5"), bs("-9223372036854775808")]),
        1 => select(vec![bs("9223372036854775808"), bs("18446744073709551616")]),
    ]
    .boxed()
}

pub fn vec_of<T: std::fmt::Debug + Clone + 'static>(s: BoxedStrategy<T>, lo: usize, hi: usize) -> BoxedStrategy<Vec<T>> {
    proptest::collection::vec(s, lo..=hi).boxed()
}

/// Glob patterns from the documented subset, built over the key alphabet.
pub fn glob_pattern() -> BoxedStrategy<Bytes> {
    let atom = prop_oneof![
        4 => select(vec![bs("k"), bs("j"), bs("e"), bs("y"), bs(":"), bs("3"), bs("L"), bs("a"), bs("b"), b"\r".to_vec(), b"\n".to_vec(), b"\xff".to_vec(), b"\x00".to_vec(), bs("_")]),
        4 => Just(bs("*")),
        2 => Just(bs("?")),
        1 => select(vec![bs("[a-k]"), bs("[jk]"), bs("[^k]"), bs("[^a-c]"), bs("\\*"), bs("\\k"), bs("\\?"), bs("[\\k]")]),
    ];
    prop_oneof![
        3 => Just(bs("*")),
        1 => select(key_pool()[..9].to_vec()),
        6 => proptest::collection::vec(atom, 1..5).prop_map(|v| v.concat()),
    ]
    .boxed()
}

fn cmd2(name: &str, k: BoxedStrategy<Bytes>) -> BoxedStrategy<Cmd> {
    let n = bs(name);
    k.prop_map(move |k| vec![n.clone(), k]).boxed()
}

fn cmd3(name: &str, k: BoxedStrategy<Bytes>, a: BoxedStrategy<Bytes>) -> BoxedStrategy<Cmd> {
    let n = bs(name);
    (k, a).prop_map(move |(k, a)| vec![n.clone(), k, a]).boxed()
}

fn cmd4(name: &str, k: BoxedStrategy<Bytes>, a: BoxedStrategy<Bytes>, b: BoxedStrategy<Bytes>) -> BoxedStrategy<Cmd> {
    let n = bs(name);
    (k, a, b).prop_map(move |(k, a, b)| vec![n.clone(), k, a, b]).boxed()
}

fn cmd_multi(name: &str, k: BoxedStrategy<Bytes>, rest: BoxedStrategy<Vec<Bytes>>) -> BoxedStrategy<Cmd> {
    let n = bs(name);
    (k, rest)
        .prop_map(move |(k, rest)| {
            let mut v = vec![n.clone(), k];
            v.extend(rest);
            v
        })
        .boxed()
}

/// Commands that create keys of the non-string types (so that every command meets every type).
pub fn seed_other_types(k: BoxedStrategy<Bytes>) -> BoxedStrategy<Cmd> {
    prop_oneof![
        cmd_multi("RPUSH", k.clone(), vec_of(member(), 1, 3)),
        cmd_multi("SADD", k.clone(), vec_of(member(), 1, 3)),
        cmd4("HSET", k.clone(), member(), value()),
        cmd4("ZADD", k.clone(), select(vec![bs("1"), bs("2.5"), bs("-1")]).boxed(), member()),
        (k.clone(), member(), member()).prop_map(|(k, f, v)| vec![bs("XADD"), k, bs("*"), f, v]),
    ]
    .boxed()
}

/// SET with every subset/order of NX/XX/EX/PX (same option twice is not generated).
pub fn set_cmd(k: BoxedStrategy<Bytes>) -> BoxedStrategy<Cmd> {
    let opt = prop_oneof![
        Just(vec![bs("NX")]),
        Just(vec![bs("XX")]),
        Just(vec![bs("nx")]),
        long_ttl_arg(false).prop_map(|t| vec![bs("EX"), t]),
        long_ttl_arg(true).prop_map(|t| vec![bs("PX"), t]),
        long_ttl_arg(true).prop_map(|t| vec![bs("px"), t]),
        Just(vec![bs("EX")]),
        Just(vec![bs("BOGUS")]),
    ];
    (k, value(), proptest::collection::vec(opt, 0..=3))
        .prop_map(|(k, v, opts)| {
            let mut out = vec![bs("SET"), k, v];
            let mut seen = std::collections::BTreeSet::new();
            for o in opts {
                let tag = String::from_utf8_lossy(&o[0]).to_uppercase();
                if seen.insert(tag) {
                    out.extend(o);
                }
            }
            out
        })
        .boxed()
}

/// The C01 command mix: strings and generic key-space commands.
pub fn c01_cmd() -> BoxedStrategy<Cmd> {
    let k = key();
    let setrange_off = prop_oneof![
        10 => select(vec![bs("0"), bs("1"), bs("2"), bs("5"), bs("10"), bs("65536")]),
        3 => select(vec![bs("-1"), bs("abc"), bs(""), bs("-9223372036854775808")]),
        3 => select(vec![bs("1099511627776"), bs("9223372036854775807"), bs("18446744073709551615"), bs("536870912"), bs("4294967296")]),
    ]
    .boxed();
    prop_oneof![
        6 => seed_other_types(k.clone()),
        12 => set_cmd(k.clone()),
        8 => cmd2("GET", k.clone()),
        3 => cmd_multi("MGET", k.clone(), vec_of(k.clone(), 0, 2)),
        3 => proptest::collection::vec((k.clone(), value()), 1..=3).prop_map(|p| {
            let mut v = vec![bs("MSET")];
            for (k, x) in p { v.push(k); v.push(x); }
            v
        }),
        1 => (k.clone(), value(), k.clone()).prop_map(|(a, b, c)| vec![bs("MSET"), a, b, c]),
        3 => cmd3("GETSET", k.clone(), value()),
        3 => cmd3("SETNX", k.clone(), value()),
        2 => cmd4("SETEX", k.clone(), long_ttl_arg(false), value()),
        2 => cmd4("PSETEX", k.clone(), long_ttl_arg(true), value()),
        5 => cmd3("APPEND", k.clone(), value()),
        3 => cmd2("STRLEN", k.clone()),
        6 => cmd4("GETRANGE", k.clone(), int_arg(), int_arg()),
        5 => cmd4("SETRANGE", k.clone(), setrange_off, value()),
        4 => cmd2("INCR", k.clone()),
        4 => cmd2("DECR", k.clone()),
        5 => cmd3("INCRBY", k.clone(), int_arg()),
        5 => cmd3("DECRBY", k.clone(), int_arg()),
        4 => cmd_multi("DEL", k.clone(), vec_of(k.clone(), 0, 2)),
        4 => cmd_multi("EXISTS", k.clone(), vec_of(k.clone(), 0, 2)),
        4 => cmd2("TYPE", k.clone()),
        5 => cmd3("RENAME", k.clone(), k.clone()),
        4 => cmd3("RENAMENX", k.clone(), k.clone()),
        4 => glob_pattern().prop_map(|p| vec![bs("KEYS"), p]),
        2 => Just(vec![bs("DBSIZE")]),
        2 => Just(vec![bs("RANDOMKEY")]),
        1 => Just(vec![bs("FLUSHDB")]),
        1 => Just(vec![bs("FLUSHALL")]),
        2 => cmd2("TTL", k.clone()),
        2 => cmd2("PTTL", k.clone()),
        1 => cmd2("PERSIST", k.clone()),
    ]
    .boxed()
}

/// With low probability remove the last argument or append one (wrong-arity class) for
/// commands whose arity is fixed in every Redis version.
pub fn with_arity_noise(s: BoxedStrategy<Cmd>) -> BoxedStrategy<Cmd> {
    (s, 0u8..40, value())
        .prop_map(|(mut c, n, extra)| {
            let name = String::from_utf8_lossy(&c[0]).to_uppercase();
            let fixed = matches!(
                name.as_str(),
                "GET" | "GETSET" | "SETNX" | "SETEX" | "PSETEX" | "APPEND" | "STRLEN" | "GETRANGE" | "SETRANGE" | "INCR" | "DECR" | "INCRBY" | "DECRBY" | "TYPE" | "RENAME" | "RENAMENX"
                    | "KEYS" | "DBSIZE" | "RANDOMKEY" | "TTL" | "PTTL" | "PERSIST" | "LLEN" | "LINDEX" | "LSET" | "LRANGE" | "LTRIM" | "LREM" | "SMEMBERS" | "SISMEMBER" | "SCARD" | "HGET"
                    | "HGETALL" | "HLEN" | "HEXISTS" | "HKEYS" | "HVALS" | "HINCRBY" | "ZSCORE" | "ZCARD" | "ZRANK" | "ZREVRANK" | "ZCOUNT" | "ZINCRBY" | "XLEN"
            );
            if n == 0 && c.len() > 1 {
                c.pop();
            } else if n == 1 && fixed {
                c.push(extra);
            }
            c
        })
        .boxed()
}

fn c03_misc(k: BoxedStrategy<Bytes>) -> BoxedStrategy<Cmd> {
    prop_oneof![
        // a few string keys so that wrong-type paths are hit
        2 => cmd3("SET", k.clone(), value()),
        2 => cmd_multi("DEL", k.clone(), vec_of(k.clone(), 0, 1)),
        3 => cmd2("TYPE", k.clone()),
        2 => cmd_multi("EXISTS", k.clone(), vec_of(k.clone(), 0, 1)),
    ]
    .boxed()
}

pub fn c03_list(k: BoxedStrategy<Bytes>) -> BoxedStrategy<Cmd> {
    let m = member();
    prop_oneof![
        8 => cmd_multi("LPUSH", k.clone(), vec_of(m.clone(), 1, 5)),
        8 => cmd_multi("RPUSH", k.clone(), vec_of(m.clone(), 1, 5)),
        4 => cmd2("LPOP", k.clone()),
        4 => cmd2("RPOP", k.clone()),
        3 => cmd2("LLEN", k.clone()),
        8 => cmd4("LRANGE", k.clone(), int_arg(), int_arg()),
        5 => cmd3("LINDEX", k.clone(), int_arg()),
        5 => cmd4("LSET", k.clone(), int_arg(), m.clone()),
        6 => cmd4("LTRIM", k.clone(), int_arg(), int_arg()),
        6 => cmd4("LREM", k.clone(), int_arg(), m.clone()),
    ]
    .boxed()
}

pub fn c03_set(k: BoxedStrategy<Bytes>) -> BoxedStrategy<Cmd> {
    let m = member();
    prop_oneof![
        8 => cmd_multi("SADD", k.clone(), vec_of(m.clone(), 1, 5)),
        5 => cmd_multi("SREM", k.clone(), vec_of(m.clone(), 1, 4)),
        3 => cmd2("SMEMBERS", k.clone()),
        3 => cmd3("SISMEMBER", k.clone(), m.clone()),
        3 => cmd2("SCARD", k.clone()),
        4 => cmd_multi("SUNION", k.clone(), vec_of(k.clone(), 0, 3)),
        4 => cmd_multi("SINTER", k.clone(), vec_of(k.clone(), 0, 3)),
        4 => cmd_multi("SDIFF", k.clone(), vec_of(k.clone(), 0, 3)),
        3 => cmd2("SPOP", k.clone()),
        3 => cmd3("SPOP", k.clone(), int_arg()),
        2 => cmd2("SRANDMEMBER", k.clone()),
        4 => cmd3("SRANDMEMBER", k.clone(), int_arg()),
    ]
    .boxed()
}

pub fn c03_hash(k: BoxedStrategy<Bytes>) -> BoxedStrategy<Cmd> {
    let m = member();
    prop_oneof![
        8 => proptest::collection::vec((m.clone(), value()), 1..=3).prop_flat_map({
            let k = k.clone();
            move |p| { let p = p.clone(); k.clone().prop_map(move |k| { let mut v = vec![bs("HSET"), k]; for (f, x) in &p { v.push(f.clone()); v.push(x.clone()); } v }) }
        }),
        3 => proptest::collection::vec((m.clone(), value()), 1..=3).prop_flat_map({
            let k = k.clone();
            move |p| { let p = p.clone(); k.clone().prop_map(move |k| { let mut v = vec![bs("HMSET"), k]; for (f, x) in &p { v.push(f.clone()); v.push(x.clone()); } v }) }
        }),
        1 => (k.clone(), m.clone(), value(), m.clone()).prop_map(|(k, a, b, c)| vec![bs("HSET"), k, a, b, c]),
        4 => cmd3("HGET", k.clone(), m.clone()),
        4 => cmd_multi("HMGET", k.clone(), vec_of(m.clone(), 1, 4)),
        3 => cmd2("HGETALL", k.clone()),
        5 => cmd_multi("HDEL", k.clone(), vec_of(m.clone(), 1, 4)),
        2 => cmd2("HLEN", k.clone()),
        2 => cmd3("HEXISTS", k.clone(), m.clone()),
        2 => cmd2("HKEYS", k.clone()),
        2 => cmd2("HVALS", k.clone()),
        6 => cmd4("HINCRBY", k.clone(), m.clone(), int_arg()),
    ]
    .boxed()
}

/// The C03 command mix for one history: one focus family gets most of the weight so that
/// same-type interactions run deep, the others supply type clashes.
pub fn c03_cmd_focus(focus: u8) -> BoxedStrategy<Cmd> {
    let k = key_nonempty();
    let w = |f: u8| if f == focus { 14u32 } else { 2u32 };
    prop_oneof![
        2 => c03_misc(k.clone()),
        w(0) => c03_list(k.clone()),
        w(1) => c03_set(k.clone()),
        w(2) => c03_hash(k.clone()),
    ]
    .boxed()
}

pub fn c03_cmd() -> BoxedStrategy<Cmd> {
    c03_cmd_focus(3)
}

/// Score arguments drawn to collide.
pub fn score_arg() -> BoxedStrategy<Bytes> {
    prop_oneof![
        12 => select(vec![bs("0"), bs("1"), bs("2"), bs("-1"), bs("1.5"), bs("-0"), bs("0.0"), bs("3")]),
        4 => select(vec![bs("inf"), bs("-inf"), bs("+inf"), bs("1e308"), bs("-1e308"), bs("5e-324"), bs("1.0000000000000002"), bs("0.9999999999999999"), bs("1e-300"), bs("4503599627370497.5")]),
        2 => select(vec![bs("nan"), bs("NaN"), bs("abc"), bs(""), bs("1e400x"), bs("1..2"), bs("-nan")]),
    ]
    .boxed()
}

/// The C04 command mix: sorted sets.
pub fn c04_cmd() -> BoxedStrategy<Cmd> {
    let k = key_nonempty();
    let m = member();
    let ws = prop_oneof![3 => Just(None), 2 => Just(Some(bs("WITHSCORES"))), 1 => Just(Some(bs("withscores")))];
    let with_ws = move |name: &'static str, a: BoxedStrategy<Bytes>, b: BoxedStrategy<Bytes>, k: BoxedStrategy<Bytes>| {
        (k, a, b, ws.clone())
            .prop_map(move |(k, a, b, ws)| {
                let mut v = vec![bs(name), k, a, b];
                if let Some(w) = ws {
                    v.push(w);
                }
                v
            })
            .boxed()
    };
    prop_oneof![
        1 => cmd3("SET", k.clone(), value()),
        2 => cmd_multi("DEL", k.clone(), vec_of(k.clone(), 0, 1)),
        2 => cmd2("TYPE", k.clone()),
        14 => proptest::collection::vec((score_arg(), m.clone()), 1..=4).prop_flat_map({
            let k = k.clone();
            move |p| { let p = p.clone(); k.clone().prop_map(move |k| { let mut v = vec![bs("ZADD"), k]; for (s, x) in &p { v.push(s.clone()); v.push(x.clone()); } v }) }
        }),
        6 => cmd4("ZINCRBY", k.clone(), score_arg(), m.clone()),
        3 => cmd4("ZINCRBY", k.clone(), select(vec![bs("inf"), bs("-inf"), bs("+inf")]).boxed(), select(vec![bs("a"), bs("b")]).boxed()),
        6 => cmd_multi("ZREM", k.clone(), vec_of(m.clone(), 1, 3)),
        2 => cmd2("ZPOPMIN", k.clone()),
        2 => cmd2("ZPOPMAX", k.clone()),
        2 => cmd3("ZPOPMIN", k.clone(), select(vec![bs("0"), bs("1"), bs("2"), bs("3"), bs("100"), bs("abc"), bs("9223372036854775807")]).boxed()),
        2 => cmd3("ZPOPMAX", k.clone(), select(vec![bs("0"), bs("1"), bs("2"), bs("3"), bs("100"), bs("abc"), bs("9223372036854775807")]).boxed()),
        6 => with_ws("ZRANGE", int_arg(), int_arg(), k.clone()),
        6 => with_ws("ZREVRANGE", int_arg(), int_arg(), k.clone()),
        5 => with_ws("ZRANGEBYSCORE", score_arg(), score_arg(), k.clone()),
        5 => with_ws("ZREVRANGEBYSCORE", score_arg(), score_arg(), k.clone()),
        4 => cmd4("ZCOUNT", k.clone(), score_arg(), score_arg()),
        4 => cmd3("ZRANK", k.clone(), m.clone()),
        4 => cmd3("ZREVRANK", k.clone(), m.clone()),
        4 => cmd3("ZSCORE", k.clone(), m.clone()),
        3 => cmd2("ZCARD", k.clone()),
    ]
    .boxed()
}

/// Stream IDs drawn to collide: small, far future, u64 edges; plus malformed spellings.
pub fn stream_id() -> BoxedStrategy<Bytes> {
    let ms = select(vec!["0", "1", "2", "5", "1000", "99999999999999", "18446744073709551615"]);
    let seq = select(vec!["0", "1", "7", "18446744073709551615"]);
    prop_oneof![
        20 => (ms, seq).prop_map(|(m, s)| format!("{}-{}", m, s).into_bytes()),
        2 => select(vec![bs("abc"), bs("1"), bs("1-"), bs("-1"), bs("1-2-3"), bs(""), bs("1-a"), bs("a-1"), bs("1.5-0"), bs(" 1-0")]),
    ]
    .boxed()
}

/// The C15 command mix: streams.
pub fn c15_cmd() -> BoxedStrategy<Cmd> {
    let k = select(vec![bs("s"), bs("t"), bs("k")]).boxed();
    let fv = proptest::collection::vec((member(), value()), 1..=3);
    let count = select(vec![bs("1"), bs("2"), bs("3"), bs("5"), bs("100")]).boxed();
    let lo = prop_oneof![2 => Just(bs("-")), 5 => stream_id()].boxed();
    let hi = prop_oneof![2 => Just(bs("+")), 5 => stream_id()].boxed();
    let range = |name: &'static str, k: BoxedStrategy<Bytes>, a: BoxedStrategy<Bytes>, b: BoxedStrategy<Bytes>, count: BoxedStrategy<Bytes>| {
        (k, a, b, proptest::option::weighted(0.4, count))
            .prop_map(move |(k, a, b, c)| {
                let mut v = vec![bs(name), k, a, b];
                if let Some(c) = c {
                    v.push(bs("COUNT"));
                    v.push(c);
                }
                v
            })
            .boxed()
    };
    prop_oneof![
        1 => cmd3("SET", k.clone(), value()),
        2 => cmd_multi("DEL", k.clone(), vec_of(k.clone(), 0, 1)),
        2 => cmd2("TYPE", k.clone()),
        14 => (k.clone(), fv.clone()).prop_map(|(k, fv)| { let mut v = vec![bs("XADD"), k, bs("*")]; for (f, x) in fv { v.push(f); v.push(x); } v }),
        14 => (k.clone(), stream_id(), fv.clone()).prop_map(|(k, id, fv)| { let mut v = vec![bs("XADD"), k, id]; for (f, x) in fv { v.push(f); v.push(x); } v }),
        8 => cmd_multi("XDEL", k.clone(), vec_of(stream_id(), 1, 3)),
        4 => (k.clone(), select(vec![bs("0"), bs("1"), bs("2"), bs("3"), bs("5"), bs("100"), bs("abc"), bs("-1")])).prop_map(|(k, n)| vec![bs("XTRIM"), k, bs("MAXLEN"), n]),
        3 => (k.clone(), select(vec![bs("0"), bs("1"), bs("2"), bs("3"), bs("5"), bs("100")])).prop_map(|(k, n)| vec![bs("XTRIM"), k, bs("MAXLEN"), bs("="), n]),
        4 => cmd2("XLEN", k.clone()),
        10 => range("XRANGE", k.clone(), lo.clone(), hi.clone(), count.clone()),
        10 => range("XREVRANGE", k.clone(), hi.clone(), lo.clone(), count.clone()),
        8 => (proptest::option::weighted(0.4, count.clone()), proptest::collection::vec((k.clone(), prop_oneof![2 => Just(bs("0")), 2 => Just(bs("$")), 5 => stream_id()]), 1..=2)).prop_map(|(c, ks)| {
            let mut v = vec![bs("XREAD")];
            if let Some(c) = c { v.push(bs("COUNT")); v.push(c); }
            v.push(bs("STREAMS"));
            for (k, _) in &ks { v.push(k.clone()); }
            for (_, id) in &ks { v.push(id.clone()); }
            v
        }),
    ]
    .boxed()
}

// ---------------------------------------------------------------------------------------
// multi-connection histories (C07, C08, C18)
// ---------------------------------------------------------------------------------------

use crate::runner::Step;

/// A compact data-command catalogue over a small key pool, all families, including commands
/// that fail at run time (wrong type, overflow, bad index).
pub fn mixed_data_cmd(k: BoxedStrategy<Bytes>) -> BoxedStrategy<Cmd> {
    let m = select(vec![bs("a"), bs("b"), bs("c")]).boxed();
    let v = select(vec![bs("v"), bs("1"), bs("10"), bs("abc"), bs("9223372036854775807"), bs("")]).boxed();
    let i = select(vec![bs("0"), bs("1"), bs("-1"), bs("2"), bs("-2"), bs("5"), bs("abc")]).boxed();
    prop_oneof![
        8 => cmd3("SET", k.clone(), v.clone()),
        4 => cmd2("GET", k.clone()),
        3 => cmd2("INCR", k.clone()),
        3 => cmd3("INCRBY", k.clone(), i.clone()),
        2 => cmd3("DECRBY", k.clone(), i.clone()),
        3 => cmd3("APPEND", k.clone(), v.clone()),
        2 => cmd3("GETSET", k.clone(), v.clone()),
        2 => cmd3("SETNX", k.clone(), v.clone()),
        3 => cmd_multi("DEL", k.clone(), vec_of(k.clone(), 0, 1)),
        2 => cmd_multi("EXISTS", k.clone(), vec_of(k.clone(), 0, 1)),
        2 => cmd2("TYPE", k.clone()),
        2 => cmd3("RENAME", k.clone(), k.clone()),
        1 => cmd3("RENAMENX", k.clone(), k.clone()),
        2 => cmd_multi("MGET", k.clone(), vec_of(k.clone(), 0, 2)),
        2 => (k.clone(), v.clone(), k.clone(), v.clone()).prop_map(|(a, b, c, d)| vec![bs("MSET"), a, b, c, d]),
        4 => cmd_multi("LPUSH", k.clone(), vec_of(m.clone(), 1, 3)),
        4 => cmd_multi("RPUSH", k.clone(), vec_of(m.clone(), 1, 3)),
        3 => cmd2("LPOP", k.clone()),
        2 => cmd2("RPOP", k.clone()),
        3 => cmd4("LRANGE", k.clone(), i.clone(), i.clone()),
        2 => cmd4("LSET", k.clone(), i.clone(), m.clone()),
        2 => cmd4("LREM", k.clone(), i.clone(), m.clone()),
        2 => cmd4("LTRIM", k.clone(), i.clone(), i.clone()),
        4 => cmd_multi("SADD", k.clone(), vec_of(m.clone(), 1, 3)),
        3 => cmd_multi("SREM", k.clone(), vec_of(m.clone(), 1, 2)),
        2 => cmd2("SMEMBERS", k.clone()),
        2 => cmd2("SPOP", k.clone()),
        4 => cmd4("HSET", k.clone(), m.clone(), v.clone()),
        2 => cmd3("HGET", k.clone(), m.clone()),
        2 => cmd3("HDEL", k.clone(), m.clone()),
        2 => cmd4("HINCRBY", k.clone(), m.clone(), i.clone()),
        2 => cmd2("HGETALL", k.clone()),
        4 => cmd4("ZADD", k.clone(), select(vec![bs("1"), bs("2"), bs("-1"), bs("inf"), bs("abc")]).boxed(), m.clone()),
        2 => cmd4("ZINCRBY", k.clone(), select(vec![bs("1"), bs("-2.5")]).boxed(), m.clone()),
        2 => cmd3("ZREM", k.clone(), m.clone()),
        2 => cmd2("ZPOPMIN", k.clone()),
        2 => (k.clone(),).prop_map(|(k,)| vec![bs("ZRANGE"), k, bs("0"), bs("-1"), bs("WITHSCORES")]),
        3 => (k.clone(), m.clone(), v.clone()).prop_map(|(k, f, x)| vec![bs("XADD"), k, bs("*"), f, x]),
        1 => (k.clone(), select(vec![bs("1-1"), bs("5-0")]), m.clone(), v.clone()).prop_map(|(k, id, f, x)| vec![bs("XADD"), k, id, f, x]),
        2 => cmd2("XLEN", k.clone()),
        1 => (k.clone(),).prop_map(|(k,)| vec![bs("XTRIM"), k, bs("MAXLEN"), bs("1")]),
        2 => cmd3("EXPIRE", k.clone(), select(vec![bs("1000"), bs("0"), bs("-1")]).boxed()),
        1 => cmd3("PEXPIRE", k.clone(), select(vec![bs("1000000"), bs("0")]).boxed()),
        2 => cmd2("PERSIST", k.clone()),
        1 => cmd2("TTL", k.clone()),
        1 => Just(vec![bs("DBSIZE")]),
        1 => Just(vec![bs("KEYS"), bs("*")]),
    ]
    .boxed()
}

#[derive(Clone, Debug)]
pub enum TxEnd {
    Exec,
    Discard,
    Reconnect,
    Nothing,
}

/// One block of a C07 history, flattened into steps.
pub fn c07_block(nconns: usize) -> BoxedStrategy<Vec<Step>> {
    let k = select(vec![bs("k"), bs("j"), bs("kk")]).boxed();
    let data = mixed_data_cmd(k.clone());
    let queued = prop_oneof![
        30 => data.clone(),
        1 => Just(vec![bs("PUBLISH"), bs("ch"), bs("m")]),
        1 => (k.clone(),).prop_map(|(k,)| vec![bs("BLPOP"), k, bs("0.05")]),
        1 => Just(vec![bs("PING")]),
        1 => Just(vec![bs("ECHO"), bs("x")]),
    ];
    let end = prop_oneof![8 => Just(TxEnd::Exec), 2 => Just(TxEnd::Discard), 1 => Just(TxEnd::Reconnect), 1 => Just(TxEnd::Nothing)];
    let tx = (0..nconns, proptest::collection::vec(queued, 0..9), proptest::collection::vec((0u8..10, 1..nconns.max(2), data.clone()), 0..3), any::<bool>(), end).prop_map(
        move |(conn, q, inter, dump, end)| {
            let mut steps = vec![Step::Cmd { conn, args: vec![bs("MULTI")] }];
            for (i, c) in q.iter().enumerate() {
                for (pos, off, oc) in &inter {
                    if *pos as usize == i {
                        steps.push(Step::Cmd { conn: (conn + off) % nconns, args: oc.clone() });
                    }
                }
                steps.push(Step::Cmd { conn, args: c.clone() });
            }
            for (pos, off, oc) in &inter {
                if *pos as usize >= q.len() {
                    steps.push(Step::Cmd { conn: (conn + off) % nconns, args: oc.clone() });
                }
            }
            if dump {
                steps.push(Step::Dump);
            }
            match end {
                TxEnd::Exec => steps.push(Step::Cmd { conn, args: vec![bs("EXEC")] }),
                TxEnd::Discard => steps.push(Step::Cmd { conn, args: vec![bs("DISCARD")] }),
                TxEnd::Reconnect => {
                    steps.push(Step::Reconnect { conn });
                    steps.push(Step::Dump);
                }
                TxEnd::Nothing => {}
            }
            steps
        },
    );
    prop_oneof![
        6 => tx,
        3 => (0..nconns, data.clone()).prop_map(|(conn, args)| vec![Step::Cmd { conn, args }]),
        1 => (0..nconns, select(vec![bs("EXEC"), bs("DISCARD"), bs("MULTI")])).prop_map(|(conn, n)| vec![Step::Cmd { conn, args: vec![n] }]),
    ]
    .boxed()
}

pub fn c07_history(nconns: usize, max_blocks: usize) -> BoxedStrategy<Vec<Step>> {
    proptest::collection::vec(c07_block(nconns), 1..=max_blocks).prop_map(|b| b.concat()).boxed()
}

// ---------------------------------------------------------------------------------------
// C02: timed histories
// ---------------------------------------------------------------------------------------

pub fn c02_history(max_len: usize) -> BoxedStrategy<Vec<Step>> {
    // e1 and o74 share a storage shard (FNV-1a mod 16), as do e2 and o20: code that treats
    // same-shard pairs specially (RENAME) is reached as often as the general case
    let k = select(vec![bs("e1"), bs("e2"), bs("e3"), bs("e4"), bs("e5"), same_shard_mate(b"e1"), same_shard_mate(b"e2")]).boxed();
    let v = select(vec![bs("v"), bs("7"), bs("w")]).boxed();
    let m = select(vec![bs("a"), bs("b")]).boxed();
    let ms = select(vec![bs("40"), bs("80"), bs("150"), bs("300"), bs("600"), bs("1000"), bs("1500"), bs("10000000")]).boxed();
    let secs = select(vec![bs("1"), bs("1"), bs("2"), bs("10000")]).boxed();
    let sleep = prop_oneof![
        6 => select(vec![2u64, 10, 30, 50, 90]),
        4 => select(vec![160u64, 320]),
        1 => Just(1100u64),
    ];
    let ttl_set = prop_oneof![
        4 => (k.clone(), v.clone(), ms.clone()).prop_map(|(k, v, t)| vec![bs("SET"), k, v, bs("PX"), t]),
        2 => (k.clone(), v.clone(), secs.clone()).prop_map(|(k, v, t)| vec![bs("SET"), k, v, bs("EX"), t]),
        1 => (k.clone(), v.clone(), ms.clone()).prop_map(|(k, v, t)| vec![bs("SET"), k, v, bs("NX"), bs("PX"), t]),
        1 => (k.clone(), v.clone(), ms.clone()).prop_map(|(k, v, t)| vec![bs("SET"), k, v, bs("XX"), bs("PX"), t]),
        2 => (k.clone(), secs.clone(), v.clone()).prop_map(|(k, t, v)| vec![bs("SETEX"), k, t, v]),
        3 => (k.clone(), ms.clone(), v.clone()).prop_map(|(k, t, v)| vec![bs("PSETEX"), k, t, v]),
        6 => (k.clone(), ms.clone()).prop_map(|(k, t)| vec![bs("PEXPIRE"), k, t]),
        2 => (k.clone(), secs.clone()).prop_map(|(k, t)| vec![bs("EXPIRE"), k, t]),
    ];
    let create = prop_oneof![
        3 => (k.clone(), v.clone()).prop_map(|(k, v)| vec![bs("SET"), k, v]),
        2 => (k.clone(), m.clone()).prop_map(|(k, m)| vec![bs("RPUSH"), k, m]),
        2 => (k.clone(), m.clone()).prop_map(|(k, m)| vec![bs("LPUSH"), k, m]),
        2 => (k.clone(), m.clone()).prop_map(|(k, m)| vec![bs("SADD"), k, m]),
        2 => (k.clone(), m.clone(), v.clone()).prop_map(|(k, m, v)| vec![bs("HSET"), k, m, v]),
        2 => (k.clone(), m.clone()).prop_map(|(k, m)| vec![bs("ZADD"), k, bs("1"), m]),
        2 => (k.clone(), m.clone()).prop_map(|(k, m)| vec![bs("XADD"), k, bs("*"), m, bs("x")]),
        1 => (k.clone(), v.clone()).prop_map(|(k, v)| vec![bs("SETNX"), k, v]),
        1 => (k.clone(), v.clone()).prop_map(|(k, v)| vec![bs("SET"), k, v, bs("NX")]),
        1 => (k.clone(), v.clone()).prop_map(|(k, v)| vec![bs("SET"), k, v, bs("XX")]),
        2 => k.clone().prop_map(|k| vec![bs("INCR"), k]),
        2 => (k.clone(), v.clone()).prop_map(|(k, v)| vec![bs("APPEND"), k, v]),
        1 => (k.clone(), v.clone()).prop_map(|(k, v)| vec![bs("SETRANGE"), k, bs("1"), v]),
        1 => (k.clone(), m.clone()).prop_map(|(k, m)| vec![bs("HINCRBY"), k, m, bs("1")]),
    ];
    let clear_move = prop_oneof![
        4 => k.clone().prop_map(|k| vec![bs("PERSIST"), k]),
        2 => (k.clone(), v.clone()).prop_map(|(k, v)| vec![bs("GETSET"), k, v]),
        2 => (k.clone(), v.clone()).prop_map(|(k, v)| vec![bs("MSET"), k, v]),
        4 => (k.clone(), k.clone()).prop_map(|(a, b)| vec![bs("RENAME"), a, b]),
        2 => (k.clone(), k.clone()).prop_map(|(a, b)| vec![bs("RENAMENX"), a, b]),
        2 => k.clone().prop_map(|k| vec![bs("DEL"), k]),
        1 => k.clone().prop_map(|k| vec![bs("LPOP"), k]),
        1 => k.clone().prop_map(|k| vec![bs("SPOP"), k]),
        1 => (k.clone(), m.clone()).prop_map(|(k, m)| vec![bs("SREM"), k, m]),
        1 => (k.clone(), m.clone()).prop_map(|(k, m)| vec![bs("HDEL"), k, m]),
        1 => (k.clone(), m.clone()).prop_map(|(k, m)| vec![bs("ZREM"), k, m]),
    ];
    let read = prop_oneof![
        5 => k.clone().prop_map(|k| vec![bs("GET"), k]),
        4 => k.clone().prop_map(|k| vec![bs("EXISTS"), k]),
        4 => k.clone().prop_map(|k| vec![bs("TYPE"), k]),
        4 => k.clone().prop_map(|k| vec![bs("TTL"), k]),
        5 => k.clone().prop_map(|k| vec![bs("PTTL"), k]),
        2 => k.clone().prop_map(|k| vec![bs("STRLEN"), k]),
        1 => k.clone().prop_map(|k| vec![bs("GETRANGE"), k, bs("0"), bs("-1")]),
        2 => k.clone().prop_map(|k| vec![bs("LLEN"), k]),
        1 => k.clone().prop_map(|k| vec![bs("LRANGE"), k, bs("0"), bs("-1")]),
        2 => k.clone().prop_map(|k| vec![bs("SCARD"), k]),
        2 => k.clone().prop_map(|k| vec![bs("HLEN"), k]),
        2 => k.clone().prop_map(|k| vec![bs("ZCARD"), k]),
        2 => k.clone().prop_map(|k| vec![bs("XLEN"), k]),
        2 => (k.clone(), k.clone()).prop_map(|(a, b)| vec![bs("MGET"), a, b]),
        2 => Just(vec![bs("KEYS"), bs("*")]),
        2 => Just(vec![bs("DBSIZE")]),
        1 => Just(vec![bs("SCAN"), bs("0"), bs("COUNT"), bs("1000")]),
        1 => Just(vec![bs("RANDOMKEY")]),
    ];
    let step = prop_oneof![
        8 => ttl_set.prop_map(|args| Step::Cmd { conn: 0, args }),
        8 => create.prop_map(|args| Step::Cmd { conn: 0, args }),
        5 => clear_move.prop_map(|args| Step::Cmd { conn: 0, args }),
        14 => read.prop_map(|args| Step::Cmd { conn: 0, args }),
        7 => sleep.prop_map(Step::Sleep),
    ];
    (proptest::collection::vec(step, 8..=max_len), 0u8..3)
        .prop_map(|(mut s, tail)| {
            if tail == 0 {
                // two sweeper periods, then the final dump: nothing without an elapsed TTL may vanish
                s.push(Step::Sleep(2200));
            }
            s
        })
        .boxed()
}

/// ferrous shards keys by FNV-1a of the key bytes modulo 16 (src/storage/engine.rs get_shard).
fn fnv_shard16(k: &[u8]) -> u64 {
    let mut h: u64 = 0xcbf29ce484222325;
    for b in k {
        h ^= *b as u64;
        h = h.wrapping_mul(0x100000001b3);
    }
    h % 16
}

/// A short key name in the same shard as `w`.
pub fn same_shard_mate(w: &[u8]) -> Bytes {
    let t = fnv_shard16(w);
    (0..10_000).map(|i| format!("o{}", i).into_bytes()).find(|k| fnv_shard16(k) == t && k != w).unwrap()
}
