pub fn hello() {}
