//! fvh — verification harness for iGentAI/ferrous (property-based testing and fuzzing).
#![allow(unused_parens)]
pub mod alloc;
pub mod childworker;
pub mod client;
pub mod dataset;
pub mod driver;
pub mod dump;
pub mod findings;
pub mod gen;
pub mod model;
pub mod out;
pub mod props;
pub mod resp;
pub mod runner;
pub mod sha1;
pub mod sut;

/// Number of parallel workers (each owns one child server) for black-box checks.
pub fn workers() -> usize {
    std::env::var("FVH_WORKERS").ok().and_then(|s| s.parse().ok()).unwrap_or(12)
}

/// println! onto the real stdout (see `out`).
#[macro_export]
macro_rules! outln {
    ($($arg:tt)*) => { $crate::out::line(&format!($($arg)*)) };
}

/// The harness' own executable, for starting child servers and workers. Through /proc the
/// running image stays reachable even when the file at its path is replaced by a rebuild while a
/// long run is in progress (std::env::current_exe would then name a deleted file).
pub fn own_exe() -> std::path::PathBuf {
    let p = std::path::PathBuf::from("/proc/self/exe");
    if p.exists() {
        p
    } else {
        std::env::current_exe().expect("own path")
    }
}
