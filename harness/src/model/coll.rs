//! List, set and hash commands (property C03).

use super::*;
use crate::typed;

fn wrong_type(w: &mut World, reply: &Reply) -> Res {
    w.label("wrongtype-hit");
    chk_err(reply)
}

/// LRANGE/LTRIM/ZRANGE index normalisation: Some((start, stop)) inclusive, or None if empty.
pub fn norm_range(len: usize, start: i64, stop: i64) -> Option<(usize, usize)> {
    let len = len as i128;
    let (mut s, mut e) = (start as i128, stop as i128);
    if s < 0 {
        s += len;
    }
    if e < 0 {
        e += len;
    }
    if s < 0 {
        s = 0;
    }
    if s > e || s >= len || e < 0 {
        return None;
    }
    if e >= len {
        e = len - 1;
    }
    Some((s as usize, e as usize))
}

fn boundary(w: &mut World, len: usize, idx: i64) {
    let l = len as i64;
    if len > 0 && (idx < 0 || idx >= l - 1) {
        w.label("boundary-index");
    }
}

pub const NAMES: &[&str] = &["BLPOP", "BRPOP", "LPUSH", "RPUSH", "LPOP", "RPOP", "LLEN", "LRANGE", "LINDEX", "LSET", "LTRIM", "LREM", "SADD", "SREM", "SMEMBERS", "SISMEMBER", "SCARD", "SUNION", "SINTER", "SDIFF", "SPOP", "SRANDMEMBER", "HSET", "HMSET", "HGET", "HMGET", "HGETALL", "HKEYS", "HVALS", "HDEL", "HLEN", "HEXISTS", "HINCRBY"];

pub fn exec(w: &mut World, db: usize, name: &str, a: &[Bytes], reply: &Reply) -> Option<Res> {
    if !NAMES.contains(&name) {
        return None;
    }
    Some(inner(w, db, name, a, reply))
}

fn inner(w: &mut World, db: usize, name: &str, a: &[Bytes], reply: &Reply) -> Res {
    (match name {
        // ---------------- lists ----------------
        "LPUSH" | "RPUSH" => {
            if a.len() < 3 {
                return (chk_err(reply));
            }
            w.touch(db, &a[1]);
            match typed!(w, db, &a[1], Val::List) {
                Err(()) => wrong_type(w, reply),
                Ok(cur) => {
                    let mut l = cur.map(|l| l.clone()).unwrap_or_default();
                    let existed = !l.is_empty();
                    for e in &a[2..] {
                        if name == "LPUSH" {
                            l.push_front(e.clone());
                        } else {
                            l.push_back(e.clone());
                        }
                    }
                    chk_int(reply, l.len() as i64)?;
                    if a.len() > 3 {
                        w.label("multi-push");
                    }
                    if existed {
                        w.get_mut(db, &a[1]).unwrap().val = Val::List(l);
                        w.mutated();
                    } else {
                        w.put(db, &a[1], Val::List(l), None);
                    }
                    Ok(())
                }
            }
        }
        "LPOP" | "RPOP" => {
            if a.len() != 2 {
                // the count form (Redis >= 6.2) is not generated
                return (chk_err(reply));
            }
            w.touch(db, &a[1]);
            match typed!(w, db, &a[1], Val::List) {
                Err(()) => wrong_type(w, reply),
                Ok(None) => chk_nil(reply),
                Ok(Some(l)) => {
                    let e = if name == "LPOP" { l.pop_front() } else { l.pop_back() };
                    let e = e.unwrap();
                    w.mutated();
                    w.drop_if_empty(db, &a[1]);
                    chk_bulk(reply, &e)
                }
            }
        }
        "LLEN" => {
            if a.len() != 2 {
                return (chk_err(reply));
            }
            match typed!(w, db, &a[1], Val::List) {
                Err(()) => wrong_type(w, reply),
                Ok(None) => chk_int(reply, 0),
                Ok(Some(l)) => {
                    let n = l.len() as i64;
                    chk_int(reply, n)
                }
            }
        }
        "LRANGE" => {
            if a.len() != 4 {
                return (chk_err(reply));
            }
            let (s, e) = match (parse_ll(&a[2]), parse_ll(&a[3])) {
                (Some(s), Some(e)) => (s, e),
                _ => {
                    w.label("bad-integer");
                    return (chk_err(reply));
                }
            };
            match typed!(w, db, &a[1], Val::List) {
                Err(()) => wrong_type(w, reply),
                Ok(None) => chk_empty(reply, false),
                Ok(Some(l)) => {
                    let l = l.clone();
                    boundary(w, l.len(), s);
                    boundary(w, l.len(), e);
                    match norm_range(l.len(), s, e) {
                        None => chk_empty(reply, false),
                        Some((s, e)) => {
                            let items: Vec<Bytes> = l.iter().skip(s).take(e - s + 1).cloned().collect();
                            chk_list(reply, &items)
                        }
                    }
                }
            }
        }
        "LINDEX" => {
            if a.len() != 3 {
                return (chk_err(reply));
            }
            let i = match parse_ll(&a[2]) {
                Some(i) => i,
                None => {
                    w.label("bad-integer");
                    return (chk_err(reply));
                }
            };
            match typed!(w, db, &a[1], Val::List) {
                Err(()) => wrong_type(w, reply),
                Ok(None) => chk_nil(reply),
                Ok(Some(l)) => {
                    let l = l.clone();
                    boundary(w, l.len(), i);
                    let idx = if i < 0 { i as i128 + l.len() as i128 } else { i as i128 };
                    if idx < 0 || idx >= l.len() as i128 {
                        chk_nil(reply)
                    } else {
                        chk_bulk(reply, &l[idx as usize])
                    }
                }
            }
        }
        "LSET" => {
            if a.len() != 4 {
                return (chk_err(reply));
            }
            w.touch(db, &a[1]);
            let i = parse_ll(&a[2]);
            match typed!(w, db, &a[1], Val::List) {
                Err(()) => wrong_type(w, reply),
                Ok(None) => {
                    w.label("missing-key-error");
                    chk_err(reply)
                }
                Ok(Some(l)) => {
                    let i = match i {
                        Some(i) => i,
                        None => {
                            w.label("bad-integer");
                            return (chk_err(reply));
                        }
                    };
                    let len = l.len();
                    let idx = if i < 0 { i as i128 + len as i128 } else { i as i128 };
                    if idx < 0 || idx >= len as i128 {
                        w.label("index-out-of-range");
                        return (chk_err(reply));
                    }
                    l[idx as usize] = a[3].clone();
                    w.mutated();
                    boundary(w, len, i);
                    chk_ok(reply)
                }
            }
        }
        "LTRIM" => {
            if a.len() != 4 {
                return (chk_err(reply));
            }
            w.touch(db, &a[1]);
            let (s, e) = match (parse_ll(&a[2]), parse_ll(&a[3])) {
                (Some(s), Some(e)) => (s, e),
                _ => {
                    w.label("bad-integer");
                    return (chk_err(reply));
                }
            };
            match typed!(w, db, &a[1], Val::List) {
                Err(()) => wrong_type(w, reply),
                Ok(None) => chk_ok(reply),
                Ok(Some(l)) => {
                    let len = l.len();
                    let nl: VecDeque<Bytes> = match norm_range(len, s, e) {
                        None => VecDeque::new(),
                        Some((s, e)) => l.iter().skip(s).take(e - s + 1).cloned().collect(),
                    };
                    if nl.len() != len {
                        *l = nl;
                        w.mutated();
                    }
                    boundary(w, len, s);
                    boundary(w, len, e);
                    w.drop_if_empty(db, &a[1]);
                    chk_ok(reply)
                }
            }
        }
        "LREM" => {
            if a.len() != 4 {
                return (chk_err(reply));
            }
            w.touch(db, &a[1]);
            let c = match parse_ll(&a[2]) {
                Some(c) => c,
                None => {
                    w.label("bad-integer");
                    return (chk_err(reply));
                }
            };
            match typed!(w, db, &a[1], Val::List) {
                Err(()) => wrong_type(w, reply),
                Ok(None) => chk_int(reply, 0),
                Ok(Some(l)) => {
                    let mut v: Vec<Bytes> = l.iter().cloned().collect();
                    let limit: u128 = if c == 0 { u128::MAX } else { (c as i128).unsigned_abs() };
                    let mut removed = 0u128;
                    if c >= 0 {
                        let mut out = Vec::new();
                        for x in v.drain(..) {
                            if x == a[3] && removed < limit {
                                removed += 1;
                            } else {
                                out.push(x);
                            }
                        }
                        v = out;
                    } else {
                        let mut out = Vec::new();
                        for x in v.drain(..).rev() {
                            if x == a[3] && removed < limit {
                                removed += 1;
                            } else {
                                out.push(x);
                            }
                        }
                        out.reverse();
                        v = out;
                    }
                    *l = v.into_iter().collect();
                    if removed > 0 {
                        w.mutated();
                    }
                    if c < 0 {
                        w.label("negative-count");
                    }
                    w.drop_if_empty(db, &a[1]);
                    chk_int(reply, removed as i64)
                }
            }
        }
        "BLPOP" | "BRPOP" => {
            // BLPOP k1 .. kn timeout, judged when its reply is in hand: pops from the first
            // non-empty key in argument order, else (timed out / inside EXEC) nil
            if a.len() < 3 {
                return (chk_err(reply));
            }
            match parse_f64(&a[a.len() - 1]) {
                Some(t) if t >= 0.0 && t.is_finite() => {}
                _ => {
                    w.label("bad-timeout");
                    return (chk_err(reply));
                }
            }
            let keys = &a[1..a.len() - 1];
            for k in keys {
                w.touch(db, k);
                match typed!(w, db, k, Val::List) {
                    Err(()) => return (wrong_type(w, reply)),
                    Ok(None) => continue,
                    Ok(Some(l)) => {
                        let e = if name == "BLPOP" { l.pop_front() } else { l.pop_back() }.unwrap();
                        w.mutated();
                        w.drop_if_empty(db, k);
                        w.label("blocking-pop-served");
                        return (chk_list(reply, &[k.clone(), e]));
                    }
                }
            }
            w.label("blocking-pop-timeout");
            chk_nil(reply)
        }
        // ---------------- sets ----------------
        "SADD" => {
            if a.len() < 3 {
                return (chk_err(reply));
            }
            w.touch(db, &a[1]);
            match typed!(w, db, &a[1], Val::Set) {
                Err(()) => wrong_type(w, reply),
                Ok(cur) => {
                    let existed = cur.is_some();
                    let mut s = cur.map(|s| s.clone()).unwrap_or_default();
                    let mut n = 0;
                    for m in &a[2..] {
                        if s.insert(m.clone()) {
                            n += 1;
                        }
                    }
                    chk_int(reply, n)?;
                    if existed {
                        w.get_mut(db, &a[1]).unwrap().val = Val::Set(s);
                        if n > 0 {
                            w.mutated();
                        }
                    } else {
                        w.put(db, &a[1], Val::Set(s), None);
                    }
                    Ok(())
                }
            }
        }
        "SREM" => {
            if a.len() < 3 {
                return (chk_err(reply));
            }
            w.touch(db, &a[1]);
            match typed!(w, db, &a[1], Val::Set) {
                Err(()) => wrong_type(w, reply),
                Ok(None) => chk_int(reply, 0),
                Ok(Some(s)) => {
                    let mut n = 0;
                    for m in &a[2..] {
                        if s.remove(m) {
                            n += 1;
                        }
                    }
                    if n > 0 {
                        w.mutated();
                    }
                    w.drop_if_empty(db, &a[1]);
                    chk_int(reply, n)
                }
            }
        }
        "SMEMBERS" => {
            if a.len() != 2 {
                return (chk_err(reply));
            }
            match typed!(w, db, &a[1], Val::Set) {
                Err(()) => wrong_type(w, reply),
                Ok(None) => chk_empty(reply, false),
                Ok(Some(s)) => {
                    let v: Vec<Bytes> = s.iter().cloned().collect();
                    chk_bag(reply, &v)
                }
            }
        }
        "SISMEMBER" => {
            if a.len() != 3 {
                return (chk_err(reply));
            }
            match typed!(w, db, &a[1], Val::Set) {
                Err(()) => wrong_type(w, reply),
                Ok(None) => chk_int(reply, 0),
                Ok(Some(s)) => {
                    let r = s.contains(&a[2]) as i64;
                    chk_int(reply, r)
                }
            }
        }
        "SCARD" => {
            if a.len() != 2 {
                return (chk_err(reply));
            }
            match typed!(w, db, &a[1], Val::Set) {
                Err(()) => wrong_type(w, reply),
                Ok(None) => chk_int(reply, 0),
                Ok(Some(s)) => {
                    let n = s.len() as i64;
                    chk_int(reply, n)
                }
            }
        }
        "SUNION" | "SINTER" | "SDIFF" => {
            if a.len() < 2 {
                return (chk_err(reply));
            }
            let mut sets: Vec<Option<BTreeSet<Bytes>>> = Vec::new();
            let mut wrong = false;
            let mut missing = false;
            for k in &a[1..] {
                match typed!(w, db, k, Val::Set) {
                    Err(()) => wrong = true,
                    Ok(None) => {
                        missing = true;
                        sets.push(None)
                    }
                    Ok(Some(s)) => sets.push(Some(s.clone())),
                }
            }
            if a.len() > 2 && (missing || wrong) {
                w.label("algebra-missing-or-wrongtype");
            }
            if wrong {
                w.label("wrongtype-hit");
                if name == "SINTER" && missing {
                    // Redis 6 and 7 differ: error or empty both accepted
                    return (match reply {
                        Reply::Frame(Frame::Error(_)) => Ok(()),
                        _ => chk_empty(reply, false),
                    });
                }
                return (chk_err(reply));
            }
            let empty = BTreeSet::new();
            let first = sets[0].clone().unwrap_or_default();
            let mut acc = first;
            for s in &sets[1..] {
                let s = s.as_ref().unwrap_or(&empty);
                acc = match name {
                    "SUNION" => acc.union(s).cloned().collect(),
                    "SINTER" => acc.intersection(s).cloned().collect(),
                    _ => acc.difference(s).cloned().collect(),
                };
            }
            let v: Vec<Bytes> = acc.into_iter().collect();
            chk_bag(reply, &v)
        }
        "SPOP" => {
            if a.len() < 2 || a.len() > 3 {
                return (chk_err(reply));
            }
            w.touch(db, &a[1]);
            let count = if a.len() == 3 {
                match parse_ll(&a[2]) {
                    Some(c) if c >= 0 => Some(c),
                    _ => {
                        w.label("bad-integer");
                        return (chk_err(reply));
                    }
                }
            } else {
                None
            };
            match typed!(w, db, &a[1], Val::Set) {
                Err(()) => wrong_type(w, reply),
                Ok(None) => match count {
                    None => chk_nil(reply),
                    Some(_) => chk_empty(reply, false),
                },
                Ok(Some(s)) => match count {
                    None => match reply {
                        Reply::Frame(f) if string_like(f).map_or(false, |b| s.contains(b)) => {
                            s.remove(string_like(f).unwrap());
                            w.mutated();
                            w.label("random-pick");
                            w.drop_if_empty(db, &a[1]);
                            Ok(())
                        }
                        _ => Err(mm("wrong-value", "one current member of the set", reply)),
                    },
                    Some(c) => {
                        let want = std::cmp::min(c as u128, s.len() as u128) as usize;
                        let got: Option<Vec<Bytes>> = match reply {
                            Reply::Frame(Frame::Array(v)) => v.iter().map(|f| string_like(f).map(|b| b.to_vec())).collect(),
                            _ => None,
                        };
                        let ok = got.as_ref().map_or(false, |g| {
                            let uniq: BTreeSet<&Bytes> = g.iter().collect();
                            g.len() == want && uniq.len() == g.len() && g.iter().all(|m| s.contains(m))
                        });
                        if !ok {
                            return (Err(mm("wrong-value", format!("{} distinct current members", want), reply)));
                        }
                        for m in got.unwrap() {
                            s.remove(&m);
                        }
                        if want > 0 {
                            w.mutated();
                            w.label("random-pick");
                        }
                        w.drop_if_empty(db, &a[1]);
                        Ok(())
                    }
                },
            }
        }
        "SRANDMEMBER" => {
            if a.len() < 2 || a.len() > 3 {
                return (chk_err(reply));
            }
            let count = if a.len() == 3 {
                match parse_ll(&a[2]) {
                    Some(c) => Some(c),
                    None => {
                        w.label("bad-integer");
                        return (chk_err(reply));
                    }
                }
            } else {
                None
            };
            if let Some(c) = count {
                if c < -(1 << 20) {
                    // a negative count asks for exactly |count| elements; beyond what a reply can
                    // hold the only acceptable answer is a refusal (never a crash)
                    w.label("absurd-count");
                    if !w.exists(db, &a[1]) && matches!(reply, Reply::Frame(Frame::Array(v)) if v.is_empty()) {
                        return Ok(());
                    }
                    return chk_err(reply);
                }
            }
            match typed!(w, db, &a[1], Val::Set) {
                Err(()) => wrong_type(w, reply),
                Ok(None) => match count {
                    None => chk_nil(reply),
                    Some(_) => chk_empty(reply, false),
                },
                Ok(Some(s)) => {
                    let s = s.clone();
                    match count {
                        None => match reply {
                            Reply::Frame(f) if string_like(f).map_or(false, |b| s.contains(b)) => Ok(()),
                            _ => Err(mm("wrong-value", "one current member of the set", reply)),
                        },
                        Some(c) => {
                            let got: Option<Vec<Bytes>> = match reply {
                                Reply::Frame(Frame::Array(v)) => v.iter().map(|f| string_like(f).map(|b| b.to_vec())).collect(),
                                _ => None,
                            };
                            let ok = got.as_ref().map_or(false, |g| {
                                if !g.iter().all(|m| s.contains(m)) {
                                    return false;
                                }
                                if c >= 0 {
                                    let uniq: BTreeSet<&Bytes> = g.iter().collect();
                                    g.len() as u128 == std::cmp::min(c as u128, s.len() as u128) && uniq.len() == g.len()
                                } else {
                                    g.len() as u128 == (c as i128).unsigned_abs()
                                }
                            });
                            if c < 0 {
                                w.label("negative-count");
                            }
                            w.label("random-pick");
                            if ok {
                                Ok(())
                            } else {
                                Err(mm(
                                    "wrong-value",
                                    if c >= 0 { format!("min({}, card) distinct current members", c) } else { format!("{} current members", -(c as i128)) },
                                    reply,
                                ))
                            }
                        }
                    }
                }
            }
        }
        // ---------------- hashes ----------------
        "HSET" | "HMSET" => {
            if a.len() < 4 || a.len() % 2 != 0 {
                return (chk_err(reply));
            }
            w.touch(db, &a[1]);
            match typed!(w, db, &a[1], Val::Hash) {
                Err(()) => wrong_type(w, reply),
                Ok(cur) => {
                    let existed = cur.is_some();
                    let mut h = cur.map(|h| h.clone()).unwrap_or_default();
                    let mut n = 0;
                    for p in a[2..].chunks(2) {
                        if h.insert(p[0].clone(), p[1].clone()).is_none() {
                            n += 1;
                        }
                    }
                    if name == "HSET" {
                        chk_int(reply, n)?;
                    } else {
                        chk_ok(reply)?;
                    }
                    if existed {
                        w.get_mut(db, &a[1]).unwrap().val = Val::Hash(h);
                        w.mutated();
                    } else {
                        w.put(db, &a[1], Val::Hash(h), None);
                    }
                    Ok(())
                }
            }
        }
        "HGET" => {
            if a.len() != 3 {
                return (chk_err(reply));
            }
            match typed!(w, db, &a[1], Val::Hash) {
                Err(()) => wrong_type(w, reply),
                Ok(None) => chk_nil(reply),
                Ok(Some(h)) => {
                    let v = h.get(&a[2]).cloned();
                    chk_opt_bulk(reply, v.as_deref())
                }
            }
        }
        "HMGET" => {
            if a.len() < 3 {
                return (chk_err(reply));
            }
            match typed!(w, db, &a[1], Val::Hash) {
                Err(()) => wrong_type(w, reply),
                Ok(cur) => {
                    let empty = BTreeMap::new();
                    let h = cur.map(|h| h.clone()).unwrap_or(empty);
                    let exp: Vec<Option<Bytes>> = a[2..].iter().map(|f| h.get(f).cloned()).collect();
                    chk_opt_list(reply, &exp)
                }
            }
        }
        "HGETALL" | "HKEYS" | "HVALS" => {
            if a.len() != 2 {
                return (chk_err(reply));
            }
            match typed!(w, db, &a[1], Val::Hash) {
                Err(()) => wrong_type(w, reply),
                Ok(None) => chk_empty(reply, false),
                Ok(Some(h)) => {
                    let h = h.clone();
                    match name {
                        "HKEYS" => chk_bag(reply, &h.keys().cloned().collect::<Vec<_>>()),
                        "HVALS" => chk_bag(reply, &h.values().cloned().collect::<Vec<_>>()),
                        _ => chk_pairs(reply, &h),
                    }
                }
            }
        }
        "HDEL" => {
            if a.len() < 3 {
                return (chk_err(reply));
            }
            w.touch(db, &a[1]);
            match typed!(w, db, &a[1], Val::Hash) {
                Err(()) => wrong_type(w, reply),
                Ok(None) => chk_int(reply, 0),
                Ok(Some(h)) => {
                    let mut n = 0;
                    for f in &a[2..] {
                        if h.remove(f).is_some() {
                            n += 1;
                        }
                    }
                    if n > 0 {
                        w.mutated();
                    }
                    w.drop_if_empty(db, &a[1]);
                    chk_int(reply, n)
                }
            }
        }
        "HLEN" => {
            if a.len() != 2 {
                return (chk_err(reply));
            }
            match typed!(w, db, &a[1], Val::Hash) {
                Err(()) => wrong_type(w, reply),
                Ok(None) => chk_int(reply, 0),
                Ok(Some(h)) => {
                    let n = h.len() as i64;
                    chk_int(reply, n)
                }
            }
        }
        "HEXISTS" => {
            if a.len() != 3 {
                return (chk_err(reply));
            }
            match typed!(w, db, &a[1], Val::Hash) {
                Err(()) => wrong_type(w, reply),
                Ok(None) => chk_int(reply, 0),
                Ok(Some(h)) => {
                    let r = h.contains_key(&a[2]) as i64;
                    chk_int(reply, r)
                }
            }
        }
        "HINCRBY" => {
            if a.len() != 4 {
                return (chk_err(reply));
            }
            w.touch(db, &a[1]);
            let inc = parse_ll(&a[3]);
            match typed!(w, db, &a[1], Val::Hash) {
                Err(()) => wrong_type(w, reply),
                Ok(cur) => {
                    let inc = match inc {
                        Some(i) => i,
                        None => {
                            w.label("bad-integer");
                            return (chk_err(reply));
                        }
                    };
                    let existed = cur.is_some();
                    let mut h = cur.map(|h| h.clone()).unwrap_or_default();
                    let curv = match h.get(&a[2]) {
                        None => 0i64,
                        Some(b) => match parse_ll(b) {
                            Some(v) => v,
                            None => {
                                w.label("not-an-integer");
                                return (chk_err(reply));
                            }
                        },
                    };
                    let nv = match curv.checked_add(inc) {
                        Some(v) => v,
                        None => {
                            w.label("overflow");
                            return (chk_err(reply));
                        }
                    };
                    chk_int(reply, nv)?;
                    h.insert(a[2].clone(), nv.to_string().into_bytes());
                    if existed {
                        w.get_mut(db, &a[1]).unwrap().val = Val::Hash(h);
                        w.mutated();
                    } else {
                        w.put(db, &a[1], Val::Hash(h), None);
                    }
                    Ok(())
                }
            }
        }
        _ => chk_err(reply),
    })
}

/// HGETALL: flat array of field, value pairs in any pair order.
pub fn chk_pairs(r: &Reply, h: &BTreeMap<Bytes, Bytes>) -> Res {
    if lenient() && matches!(r, Reply::Frame(_)) {
        return Ok(());
    }
    if let Reply::Frame(Frame::Array(v)) = r {
        if v.len() == h.len() * 2 {
            let mut got = BTreeMap::new();
            let mut ok = true;
            for p in v.chunks(2) {
                match (string_like(&p[0]), string_like(&p[1])) {
                    (Some(k), Some(x)) => {
                        if got.insert(k.to_vec(), x.to_vec()).is_some() {
                            ok = false;
                        }
                    }
                    _ => ok = false,
                }
            }
            if ok && &got == h {
                return Ok(());
            }
        }
    }
    Err(mm(
        match r {
            Reply::Frame(Frame::Error(_)) => "error-for-value",
            Reply::Frame(_) => "wrong-value",
            _ => "no-reply",
        },
        format!("field/value pairs (any order) {:?}", h.iter().map(|(k, v)| (crate::resp::show_bytes(k), crate::resp::show_bytes(v))).collect::<Vec<_>>()),
        r,
    ))
}
