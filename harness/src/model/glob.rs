//! Byte-wise glob matching with the semantics of Redis `stringmatchlen` (case sensitive):
//! `*`, `?`, `[abc]`, `[a-c]`, `[^a]`, and `\x` escapes inside and outside classes.

pub fn glob_match(pat: &[u8], s: &[u8]) -> bool {
    let (mut p, mut t) = (0usize, 0usize);
    while p < pat.len() {
        match pat[p] {
            b'*' => {
                while p + 1 < pat.len() && pat[p + 1] == b'*' {
                    p += 1;
                }
                if p + 1 == pat.len() {
                    return true;
                }
                let mut tt = t;
                loop {
                    if glob_match(&pat[p + 1..], &s[tt..]) {
                        return true;
                    }
                    if tt >= s.len() {
                        return false;
                    }
                    tt += 1;
                }
            }
            b'?' => {
                if t >= s.len() {
                    return false;
                }
                t += 1;
                p += 1;
            }
            b'[' => {
                if t >= s.len() {
                    return false;
                }
                p += 1;
                let not = p < pat.len() && pat[p] == b'^';
                if not {
                    p += 1;
                }
                let mut matched = false;
                loop {
                    if p >= pat.len() {
                        // unterminated class: Redis backs up one char; not generated
                        p = pat.len().saturating_sub(1);
                        break;
                    }
                    if pat[p] == b'\\' && p + 1 < pat.len() {
                        p += 1;
                        if pat[p] == s[t] {
                            matched = true;
                        }
                    } else if pat[p] == b']' {
                        break;
                    } else if p + 2 < pat.len() && pat[p + 1] == b'-' {
                        let (mut lo, mut hi) = (pat[p], pat[p + 2]);
                        if lo > hi {
                            std::mem::swap(&mut lo, &mut hi);
                        }
                        p += 2;
                        if s[t] >= lo && s[t] <= hi {
                            matched = true;
                        }
                    } else if pat[p] == s[t] {
                        matched = true;
                    }
                    p += 1;
                }
                if not {
                    matched = !matched;
                }
                if !matched {
                    return false;
                }
                t += 1;
                p += 1;
            }
            b'\\' if p + 1 < pat.len() => {
                p += 1;
                if t >= s.len() || pat[p] != s[t] {
                    return false;
                }
                t += 1;
                p += 1;
            }
            c => {
                if t >= s.len() || c != s[t] {
                    return false;
                }
                t += 1;
                p += 1;
            }
        }
    }
    t == s.len()
}

#[cfg(test)]
mod tests {
    use super::glob_match;
    #[test]
    fn basics() {
        assert!(glob_match(b"*", b""));
        assert!(glob_match(b"a*", b"abc"));
        assert!(!glob_match(b"a?", b"a"));
        assert!(glob_match(b"[a-c]x", b"bx"));
        assert!(glob_match(b"[^a]x", b"bx"));
        assert!(!glob_match(b"[^a]x", b"ax"));
        assert!(glob_match(b"a\\*", b"a*"));
        assert!(!glob_match(b"a\\*", b"ab"));
        assert!(glob_match(b"*b", b"aab"));
        assert!(glob_match(b"\xff*", b"\xff\x00"));
    }
}
