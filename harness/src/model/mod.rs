//! Reference model of the Redis semantics the properties name. Written from the Redis
//! command documentation (DESIGN.md Appendix B), never from ferrous code.
//!
//! `World::exec(conn, args, reply, t)` takes the server's actual reply: it checks it against
//! what the documentation prescribes (through a normaliser that encodes the freedom the
//! properties leave), applies the command to the model, and for random-outcome commands
//! validates and then adopts the server's choice.

pub mod coll;
pub mod glob;
pub mod stream;
pub mod strings;
pub mod zset;

use crate::client::Reply;
use crate::resp::Frame;
use std::collections::{BTreeMap, BTreeSet, HashMap, VecDeque};

pub type Bytes = Vec<u8>;
pub type Cmd = Vec<Bytes>;

pub fn cmd(parts: &[&str]) -> Cmd {
    parts.iter().map(|s| s.as_bytes().to_vec()).collect()
}

pub fn show_cmd(c: &[Bytes]) -> String {
    c.iter().map(|a| format!("\"{}\"", crate::resp::show_bytes(a))).collect::<Vec<_>>().join(" ")
}

#[derive(Clone, Debug, PartialEq)]
pub enum Val {
    Str(Bytes),
    List(VecDeque<Bytes>),
    Set(BTreeSet<Bytes>),
    Hash(BTreeMap<Bytes, Bytes>),
    ZSet(BTreeMap<Bytes, f64>),
    Stream(stream::StreamM),
}

impl Val {
    pub fn type_name(&self) -> &'static str {
        match self {
            Val::Str(_) => "string",
            Val::List(_) => "list",
            Val::Set(_) => "set",
            Val::Hash(_) => "hash",
            Val::ZSet(_) => "zset",
            Val::Stream(_) => "stream",
        }
    }
}

/// Deadline of a key in harness-clock milliseconds: the server's deadline lies in [lo, hi].
#[derive(Clone, Copy, Debug, PartialEq)]
pub struct Deadline {
    pub lo: f64,
    pub hi: f64,
}

#[derive(Clone, Debug, PartialEq)]
pub struct Entry {
    pub val: Val,
    pub ttl: Option<Deadline>,
}

#[derive(Clone, Debug, Default)]
pub struct Db {
    pub keys: BTreeMap<Bytes, Entry>,
}

#[derive(Clone, Debug)]
pub struct Watch {
    pub db: usize,
    pub key: Bytes,
    pub snapshot: Option<Entry>,
    pub seq: u64,
}

#[derive(Clone, Debug, Default)]
pub struct ConnState {
    pub db: usize,
    pub multi: Option<Vec<Cmd>>,
    pub watches: Vec<Watch>,
}

/// Harness-clock timestamps (ms since case start) taken around one request.
#[derive(Clone, Copy, Debug)]
pub struct Tm {
    pub send: f64,
    pub recv: f64,
}

impl Tm {
    pub fn zero() -> Tm {
        Tm { send: 0.0, recv: 0.0 }
    }
}

#[derive(Debug, Clone)]
pub struct Mismatch {
    pub expected: String,
    pub got: String,
    /// coarse class used by known-finding signatures
    pub kind: &'static str,
}

pub type Res = Result<(), Mismatch>;

/// Outcome of a step when time makes the expected result undecidable.
#[derive(Debug, Clone, PartialEq)]
pub enum StepNote {
    Checked,
    /// a key touched by the command had a deadline inside [send, recv]: nothing asserted,
    /// the caller must end the case (model and server may have diverged legitimately)
    Ambiguous,
}

pub struct World {
    pub dbs: Vec<Db>,
    pub conns: Vec<ConnState>,
    pub labels: BTreeSet<&'static str>,
    pub write_seq: u64,
    pub last_write: HashMap<(usize, Bytes), u64>,
    pub flush_seq: Vec<u64>,
    pub now: Tm,
    /// model the lazy/active expiry of keys (true) or treat TTLs as metadata only
    pub timed: bool,
    /// set when the current command touched a key whose deadline is ambiguous
    pub ambiguous: bool,
    /// number of commands that changed the dataset
    pub mutations: u64,
    pub scripts: HashMap<String, Bytes>,
    /// commands issued through the wrapper script are applied with lenient reply checking
    pub lenient_scripts: bool,
    /// a lenient step could not adopt the server's outcome: dumps are no longer comparable
    pub uncertain: bool,
    /// tells whether a queued command, at the moment EXEC runs it, falls under an active
    /// known-finding exclusion (its slot is then not judged and the model becomes uncertain)
    /// after a lenient script step the dataset is no longer compared (the scripting path is a
    /// second implementation); checks that restrict scripts to a safe subset turn this off
    pub script_uncertain: bool,
    /// origin of the harness clock for this case
    pub t0: Option<std::time::Instant>,
    pub slot_excluder: Option<std::sync::Arc<dyn Fn(&mut World, usize, &Cmd) -> bool + Send + Sync>>,
}

pub fn mm(kind: &'static str, expected: impl Into<String>, got: &Reply) -> Mismatch {
    Mismatch { expected: expected.into(), got: format!("{:?}", got), kind }
}

// ---------- reply checks (the normaliser) ----------

thread_local! {
    /// When set, reply *content* is not judged (used for commands issued through scripts in
    /// checks that only care about the command's effect); the model still applies the command.
    static LENIENT: std::cell::Cell<bool> = const { std::cell::Cell::new(false) };
}

pub fn lenient() -> bool {
    LENIENT.with(|l| l.get())
}

pub fn with_lenient<T>(on: bool, f: impl FnOnce() -> T) -> T {
    let prev = LENIENT.with(|l| l.replace(on));
    let r = f();
    LENIENT.with(|l| l.set(prev));
    r
}

/// The wrapper script used to issue a command through the scripting path.
pub const WRAP_SCRIPT: &[u8] = b"return redis.call(unpack(ARGV))";

pub fn string_like(f: &Frame) -> Option<&[u8]> {
    match f {
        Frame::Bulk(b) | Frame::Simple(b) => Some(b),
        _ => None,
    }
}

pub fn chk_err(r: &Reply) -> Res {
    if lenient() && matches!(r, Reply::Frame(_)) {
        return Ok(());
    }
    match r {
        Reply::Frame(Frame::Error(_)) => Ok(()),
        Reply::Frame(_) => Err(mm("value-for-error", "an error reply", r)),
        _ => Err(mm("no-reply", "an error reply", r)),
    }
}

fn kind_of(r: &Reply) -> &'static str {
    match r {
        Reply::Frame(Frame::Error(_)) => "error-for-value",
        Reply::Frame(_) => "wrong-value",
        _ => "no-reply",
    }
}

pub fn chk_int(r: &Reply, i: i64) -> Res {
    if lenient() && matches!(r, Reply::Frame(_)) {
        return Ok(());
    }
    match r {
        Reply::Frame(Frame::Int(x)) if *x == i => Ok(()),
        _ => Err(mm(kind_of(r), format!(":{}", i), r)),
    }
}

pub fn chk_ok(r: &Reply) -> Res {
    chk_status(r, b"OK")
}

pub fn chk_status(r: &Reply, s: &[u8]) -> Res {
    if lenient() && matches!(r, Reply::Frame(_)) {
        return Ok(());
    }
    match r {
        Reply::Frame(f) if string_like(f) == Some(s) => Ok(()),
        _ => Err(mm(kind_of(r), format!("+{}", String::from_utf8_lossy(s)), r)),
    }
}

pub fn chk_bulk(r: &Reply, b: &[u8]) -> Res {
    if lenient() && matches!(r, Reply::Frame(_)) {
        return Ok(());
    }
    match r {
        Reply::Frame(f) if string_like(f) == Some(b) => Ok(()),
        _ => Err(mm(kind_of(r), format!("\"{}\"", crate::resp::show_bytes(b)), r)),
    }
}

pub fn chk_nil(r: &Reply) -> Res {
    if lenient() && matches!(r, Reply::Frame(_)) {
        return Ok(());
    }
    match r {
        Reply::Frame(f) if f.is_nil() => Ok(()),
        _ => Err(mm(kind_of(r), "nil", r)),
    }
}

pub fn chk_opt_bulk(r: &Reply, b: Option<&[u8]>) -> Res {
    match b {
        Some(b) => chk_bulk(r, b),
        None => chk_nil(r),
    }
}

/// Array of bulk strings in exact order.
pub fn chk_list(r: &Reply, items: &[Bytes]) -> Res {
    if lenient() && matches!(r, Reply::Frame(_)) {
        return Ok(());
    }
    if let Reply::Frame(Frame::Array(v)) = r {
        if v.len() == items.len() && v.iter().zip(items).all(|(f, b)| string_like(f) == Some(b.as_slice())) {
            return Ok(());
        }
    }
    Err(mm(kind_of(r), format!("array {:?}", items.iter().map(|b| crate::resp::show_bytes(b)).collect::<Vec<_>>()), r))
}

/// Array with nil slots.
pub fn chk_opt_list(r: &Reply, items: &[Option<Bytes>]) -> Res {
    if lenient() && matches!(r, Reply::Frame(_)) {
        return Ok(());
    }
    if let Reply::Frame(Frame::Array(v)) = r {
        if v.len() == items.len()
            && v.iter().zip(items).all(|(f, b)| match b {
                Some(b) => string_like(f) == Some(b.as_slice()),
                None => f.is_nil(),
            })
        {
            return Ok(());
        }
    }
    Err(mm(
        kind_of(r),
        format!("array {:?}", items.iter().map(|b| b.as_ref().map(|b| crate::resp::show_bytes(b))).collect::<Vec<_>>()),
        r,
    ))
}

/// Array of bulk strings compared as a multiset.
pub fn chk_bag(r: &Reply, items: &[Bytes]) -> Res {
    if lenient() && matches!(r, Reply::Frame(_)) {
        return Ok(());
    }
    if let Reply::Frame(Frame::Array(v)) = r {
        let mut got: Vec<Bytes> = Vec::new();
        let mut ok = true;
        for f in v {
            match string_like(f) {
                Some(b) => got.push(b.to_vec()),
                None => ok = false,
            }
        }
        let mut want = items.to_vec();
        want.sort();
        got.sort();
        if ok && want == got {
            return Ok(());
        }
    }
    Err(mm(kind_of(r), format!("array (any order) {:?}", items.iter().map(|b| crate::resp::show_bytes(b)).collect::<Vec<_>>()), r))
}

/// Empty array (a nil array is accepted where the caller says so).
pub fn chk_empty(r: &Reply, nil_ok: bool) -> Res {
    if lenient() && matches!(r, Reply::Frame(_)) {
        return Ok(());
    }
    match r {
        Reply::Frame(Frame::Array(v)) if v.is_empty() => Ok(()),
        Reply::Frame(f) if nil_ok && f.is_nil() => Ok(()),
        _ => Err(mm(kind_of(r), if nil_ok { "empty array (or nil)" } else { "empty array" }, r)),
    }
}

// ---------- number syntax ----------

/// Redis `string2ll`: optional '-', first digit 1-9 (or exactly "0"), digits only, fits i64.
pub fn parse_ll(b: &[u8]) -> Option<i64> {
    if b.is_empty() || b.len() > 20 {
        return None;
    }
    if b == b"0" {
        return Some(0);
    }
    let (neg, digits) = if b[0] == b'-' { (true, &b[1..]) } else { (false, b) };
    if digits.is_empty() || digits[0] == b'0' || !digits.iter().all(|c| c.is_ascii_digit()) {
        return None;
    }
    let s = std::str::from_utf8(b).ok()?;
    let v = s.parse::<i64>().ok()?;
    let _ = neg;
    Some(v)
}

/// Float argument syntax (decimal / exponent / inf forms); NaN and garbage are invalid.
pub fn parse_f64(b: &[u8]) -> Option<f64> {
    let s = std::str::from_utf8(b).ok()?;
    if s.is_empty() || s.starts_with(char::is_whitespace) || s.ends_with(char::is_whitespace) {
        return None;
    }
    let v = s.parse::<f64>().ok()?;
    if v.is_nan() {
        None
    } else {
        Some(v)
    }
}

pub fn upper(b: &[u8]) -> String {
    String::from_utf8_lossy(b).to_uppercase()
}

impl World {
    pub fn new(nconns: usize) -> World {
        World {
            dbs: (0..16).map(|_| Db::default()).collect(),
            conns: (0..nconns).map(|_| ConnState::default()).collect(),
            labels: BTreeSet::new(),
            write_seq: 0,
            last_write: HashMap::new(),
            flush_seq: vec![0; 16],
            now: Tm::zero(),
            timed: false,
            ambiguous: false,
            mutations: 0,
            scripts: HashMap::new(),
            lenient_scripts: false,
            uncertain: false,
            slot_excluder: None,
            script_uncertain: true,
            t0: None,
        }
    }

    /// Harness clock, milliseconds since the start of the case.
    pub fn clock_ms(&self) -> f64 {
        self.t0.map_or(0.0, |t| t.elapsed().as_secs_f64() * 1000.0)
    }

    /// Keys whose deadline lies inside the current window `self.now` (timed mode only).
    pub fn undecided_keys(&self, dbs: &[usize]) -> Vec<(usize, Bytes)> {
        let mut out = Vec::new();
        if !self.timed {
            return out;
        }
        for &db in dbs {
            for (k, e) in &self.dbs[db].keys {
                if let Some(d) = e.ttl {
                    if d.hi > self.now.send && d.lo <= self.now.recv {
                        out.push((db, k.clone()));
                    }
                }
            }
        }
        out
    }

    pub fn label(&mut self, l: &'static str) {
        self.labels.insert(l);
    }

    // ----- key access with expiry resolution -----

    /// Resolve the expiry of `key` against the current request window. Returns false when the
    /// deadline is inside the window (ambiguous).
    fn resolve(&mut self, db: usize, key: &[u8]) {
        if !self.timed {
            return;
        }
        let now = self.now;
        let mut remove = false;
        if let Some(e) = self.dbs[db].keys.get(key) {
            if let Some(d) = e.ttl {
                if d.hi <= now.send {
                    remove = true;
                } else if d.lo > now.recv {
                    // definitely alive
                } else {
                    self.ambiguous = true;
                }
            }
        }
        if remove {
            self.dbs[db].keys.remove(key);
            self.labels.insert("ttl-crossed");
        }
    }

    /// Resolve expiry of every key in a database (whole-keyspace views).
    pub fn resolve_all(&mut self, db: usize) {
        if !self.timed {
            return;
        }
        let keys: Vec<Bytes> = self.dbs[db].keys.iter().filter(|(_, e)| e.ttl.is_some()).map(|(k, _)| k.clone()).collect();
        for k in keys {
            self.resolve(db, &k);
        }
    }

    pub fn get(&mut self, db: usize, key: &[u8]) -> Option<&Entry> {
        self.resolve(db, key);
        self.dbs[db].keys.get(key)
    }

    pub fn get_mut(&mut self, db: usize, key: &[u8]) -> Option<&mut Entry> {
        self.resolve(db, key);
        self.dbs[db].keys.get_mut(key)
    }

    pub fn exists(&mut self, db: usize, key: &[u8]) -> bool {
        self.get(db, key).is_some()
    }

    /// Record that a write command addressed `key` (for the WATCH oracle).
    pub fn touch(&mut self, db: usize, key: &[u8]) {
        self.write_seq += 1;
        self.last_write.insert((db, key.to_vec()), self.write_seq);
    }

    pub fn mutated(&mut self) {
        self.mutations += 1;
    }

    pub fn put(&mut self, db: usize, key: &[u8], val: Val, ttl: Option<Deadline>) {
        if ttl.is_none() && self.dbs[db].keys.get(key).map_or(false, |e| e.ttl.is_some()) {
            self.labels.insert("ttl-overwritten");
        }
        self.dbs[db].keys.insert(key.to_vec(), Entry { val, ttl });
        self.mutated();
    }

    pub fn remove(&mut self, db: usize, key: &[u8]) -> bool {
        let r = self.dbs[db].keys.remove(key).is_some();
        if r {
            self.mutated();
        }
        r
    }

    /// Remove the key if its collection became empty (streams are exempt).
    pub fn drop_if_empty(&mut self, db: usize, key: &[u8]) {
        let empty = match self.dbs[db].keys.get(key).map(|e| &e.val) {
            Some(Val::List(l)) => l.is_empty(),
            Some(Val::Set(s)) => s.is_empty(),
            Some(Val::Hash(h)) => h.is_empty(),
            Some(Val::ZSet(z)) => z.is_empty(),
            _ => false,
        };
        if empty {
            self.dbs[db].keys.remove(key);
            self.labels.insert("key-emptied");
        }
    }

    fn deadline_from(&self, millis: f64) -> Deadline {
        Deadline { lo: self.now.send + millis, hi: self.now.recv + millis }
    }

    // ----- top-level entry -----

    /// Check `reply` for `args` sent on `conn` and apply the command to the model.
    pub fn exec(&mut self, conn: usize, args: &[Bytes], reply: &Reply, now: Tm) -> Result<StepNote, Mismatch> {
        self.now = now;
        self.ambiguous = false;
        let snapshot_dbs = if self.timed { Some(self.dbs.clone()) } else { None };
        let r = self.exec_conn(conn, args, reply);
        if self.ambiguous {
            // nothing can be asserted; restore and let the caller end the case
            if let Some(d) = snapshot_dbs {
                self.dbs = d;
            }
            return Ok(StepNote::Ambiguous);
        }
        r.map(|_| StepNote::Checked)
    }

    fn exec_conn(&mut self, conn: usize, args: &[Bytes], reply: &Reply) -> Res {
        if args.is_empty() {
            return chk_err(reply);
        }
        let name = upper(&args[0]);
        let in_multi = self.conns[conn].multi.is_some();
        match name.as_str() {
            "MULTI" => {
                if args.len() != 1 {
                    return chk_err(reply);
                }
                if in_multi {
                    return chk_err(reply);
                }
                chk_ok(reply)?;
                self.conns[conn].multi = Some(Vec::new());
                Ok(())
            }
            "DISCARD" => {
                if args.len() != 1 || !in_multi {
                    return chk_err(reply);
                }
                chk_ok(reply)?;
                self.conns[conn].multi = None;
                self.conns[conn].watches.clear();
                self.label("discard");
                Ok(())
            }
            "WATCH" => {
                if args.len() < 2 || in_multi {
                    return chk_err(reply);
                }
                chk_ok(reply)?;
                let db = self.conns[conn].db;
                for k in &args[1..] {
                    let snap = self.get(db, k).cloned();
                    let seq = self.write_seq;
                    self.conns[conn].watches.push(Watch { db, key: k.clone(), snapshot: snap, seq });
                }
                Ok(())
            }
            "UNWATCH" => {
                if args.len() != 1 {
                    return chk_err(reply);
                }
                if in_multi {
                    // Redis queues UNWATCH inside MULTI; not generated
                    return Ok(());
                }
                chk_ok(reply)?;
                self.conns[conn].watches.clear();
                Ok(())
            }
            "EXEC" => {
                if args.len() != 1 || !in_multi {
                    return chk_err(reply);
                }
                self.exec_exec(conn, reply)
            }
            _ if in_multi => {
                chk_status(reply, b"QUEUED")?;
                self.conns[conn].multi.as_mut().unwrap().push(args.to_vec());
                Ok(())
            }
            _ => self.exec_data(conn, args, reply),
        }
    }

    fn exec_exec(&mut self, conn: usize, reply: &Reply) -> Res {
        let queue = self.conns[conn].multi.take().unwrap();
        let watches = std::mem::take(&mut self.conns[conn].watches);
        // decide abort
        let mut must_abort = false;
        let mut may_abort = false;
        for w in &watches {
            let cur = self.get(w.db, &w.key).cloned();
            let touched = self.last_write.get(&(w.db, w.key.clone())).map_or(false, |s| *s > w.seq) || self.flush_seq[w.db] > w.seq;
            if cur != w.snapshot {
                must_abort = true;
            } else if touched {
                may_abort = true;
            }
        }
        if self.ambiguous {
            return Ok(());
        }
        let is_nil = matches!(reply, Reply::Frame(f) if f.is_nil());
        if must_abort {
            self.label("watch-abort");
            if is_nil {
                return Ok(());
            }
            return Err(mm("exec-not-aborted", "nil (a watched key changed)", reply));
        }
        if is_nil {
            if may_abort {
                self.label("watch-abort-noop-write");
                return Ok(());
            }
            return Err(mm("exec-false-abort", format!("array of {} replies (no watched key was touched)", queue.len()), reply));
        }
        if !watches.is_empty() {
            self.label("watch-pass");
        }
        let slots = match reply {
            Reply::Frame(Frame::Array(v)) if v.len() == queue.len() => v.clone(),
            _ => return Err(mm(kind_of(reply), format!("array of {} replies", queue.len()), reply)),
        };
        if queue.len() >= 2 {
            self.label("exec>=2");
        }
        for (i, (c, slot)) in queue.iter().zip(slots.iter()).enumerate() {
            let r = Reply::Frame(slot.clone());
            if slot.is_error() {
                self.label("exec-slot-error");
            }
            if let Some(f) = self.slot_excluder.clone() {
                if f(self, conn, c) {
                    self.label("exec-slot-excluded");
                    self.uncertain = true;
                    let _ = with_lenient(true, || self.exec_data(conn, c, &r));
                    continue;
                }
            }
            if let Err(mut m) = self.exec_data(conn, c, &r) {
                m.expected = format!("EXEC slot {} ({}): {}", i, show_cmd(c), m.expected);
                return Err(m);
            }
        }
        Ok(())
    }

    /// Data / key-space commands (no transaction control).
    pub fn exec_data(&mut self, conn: usize, args: &[Bytes], reply: &Reply) -> Res {
        let name = upper(&args[0]);
        let db = self.conns[conn].db;
        match name.as_str() {
            "PING" => match args.len() {
                1 => chk_status(reply, b"PONG"),
                2 => chk_bulk(reply, &args[1]),
                _ => chk_err(reply),
            },
            "ECHO" => {
                if args.len() == 2 {
                    chk_bulk(reply, &args[1])
                } else {
                    chk_err(reply)
                }
            }
            "PUBLISH" => {
                // delivery counts are C14's business; here only the reply shape
                if args.len() != 3 {
                    return chk_err(reply);
                }
                match reply {
                    Reply::Frame(Frame::Int(n)) if *n >= 0 => Ok(()),
                    _ => Err(mm("wrong-value", "an integer (receiver count)", reply)),
                }
            }
            "SELECT" => {
                if args.len() != 2 {
                    return chk_err(reply);
                }
                match parse_ll(&args[1]) {
                    Some(n) if (0..16).contains(&n) => {
                        chk_ok(reply)?;
                        self.conns[conn].db = n as usize;
                        if n != 0 {
                            self.label("select-nonzero");
                        }
                        Ok(())
                    }
                    _ => {
                        self.label("select-refused");
                        chk_err(reply)
                    }
                }
            }
            "SCRIPT" if args.len() == 3 && upper(&args[1]) == "LOAD" => {
                let sha = crate::sha1::sha1_hex(&args[2]);
                chk_bulk(reply, sha.as_bytes())?;
                self.scripts.insert(sha, args[2].clone());
                Ok(())
            }
            "EVALSHA" if args.len() >= 3 && args[2] == b"0" => {
                let sha = String::from_utf8_lossy(&args[1]).to_lowercase();
                match self.scripts.get(&sha).cloned() {
                    None => {
                        self.label("noscript");
                        chk_err(reply)
                    }
                    Some(src) => {
                        self.label("via-evalsha");
                        let mut a: Vec<Bytes> = vec![b"EVAL".to_vec(), src, b"0".to_vec()];
                        a.extend_from_slice(&args[3..]);
                        self.exec_data(conn, &a, reply)
                    }
                }
            }
            "EVAL" if args.len() >= 4 && args[1] == WRAP_SCRIPT && args[2] == b"0" => {
                // a command issued through the scripting path: same effect as the direct command
                self.label("via-script");
                let inner: Vec<Bytes> = args[3..].to_vec();
                if self.lenient_scripts {
                    let _ = with_lenient(true, || self.exec_data(conn, &inner, reply));
                    // the scripting path is a second implementation of the command (judged by
                    // C12): after it the dataset is no longer compared with the model
                    if self.script_uncertain {
                        self.uncertain = true;
                    }
                    match reply {
                        Reply::Frame(_) => Ok(()),
                        _ => chk_err(reply),
                    }
                } else {
                    self.exec_data(conn, &inner, reply)
                }
            }
            _ => {
                if let Some(r) = strings::exec(self, db, &name, args, reply) {
                    return r;
                }
                if let Some(r) = coll::exec(self, db, &name, args, reply) {
                    return r;
                }
                if let Some(r) = zset::exec(self, db, &name, args, reply) {
                    return r;
                }
                if let Some(r) = stream::exec(self, db, &name, args, reply) {
                    return r;
                }
                // unknown command
                chk_err(reply)
            }
        }
    }

    /// A connection was closed by the client: drop its transaction state.
    pub fn disconnect(&mut self, conn: usize) {
        self.conns[conn] = ConnState::default();
    }
}

/// Type check helper: Ok(Some(&mut val)) / Ok(None) missing / Err(()) wrong type.
#[macro_export]
macro_rules! typed {
    ($w:expr, $db:expr, $key:expr, $variant:path) => {{
        match $w.get_mut($db, $key) {
            None => Ok(None),
            Some(e) => match &mut e.val {
                $variant(x) => Ok(Some(x)),
                _ => Err(()),
            },
        }
    }};
}
