//! Stream commands (property C15) and consumer groups (property C16).

use super::*;

pub type Sid = (u64, u64);

#[derive(Clone, Debug, PartialEq, Default)]
pub struct PelEntry {
    pub consumer: Bytes,
    pub deliveries: u64,
}

#[derive(Clone, Debug, PartialEq, Default)]
pub struct GroupM {
    pub last_delivered: Sid,
    pub pel: BTreeMap<Sid, PelEntry>,
    pub consumers: BTreeSet<Bytes>,
}

#[derive(Clone, Debug, PartialEq, Default)]
pub struct StreamM {
    pub entries: BTreeMap<Sid, Vec<(Bytes, Bytes)>>,
    /// greatest ID ever added (never lowered by XDEL/XTRIM)
    pub last_id: Sid,
    pub groups: BTreeMap<Bytes, GroupM>,
}

fn wrong_type(w: &mut World, reply: &Reply) -> Res {
    w.label("wrongtype-hit");
    chk_err(reply)
}

/// Complete IDs only ("ms-seq", both decimal u64). Incomplete forms are not generated.
pub fn parse_id(b: &[u8]) -> Option<Sid> {
    let s = std::str::from_utf8(b).ok()?;
    let (m, q) = s.split_once('-')?;
    if m.is_empty() || q.is_empty() || !m.bytes().all(|c| c.is_ascii_digit()) || !q.bytes().all(|c| c.is_ascii_digit()) {
        return None;
    }
    Some((m.parse::<u64>().ok()?, q.parse::<u64>().ok()?))
}

pub fn fmt_id(id: Sid) -> Bytes {
    format!("{}-{}", id.0, id.1).into_bytes()
}

fn fields_map(f: &[(Bytes, Bytes)]) -> BTreeMap<Bytes, Bytes> {
    f.iter().cloned().collect()
}

/// One entry frame `[id, [f1, v1, ...]]` against the model entry (fields compared as a map).
pub fn entry_matches(f: &Frame, id: Sid, fields: &[(Bytes, Bytes)]) -> bool {
    let v = match f {
        Frame::Array(v) if v.len() == 2 => v,
        _ => return false,
    };
    if string_like(&v[0]) != Some(fmt_id(id).as_slice()) {
        return false;
    }
    let fv = match &v[1] {
        Frame::Array(fv) if fv.len() % 2 == 0 => fv,
        _ => return false,
    };
    let mut got = BTreeMap::new();
    for p in fv.chunks(2) {
        match (string_like(&p[0]), string_like(&p[1])) {
            (Some(k), Some(x)) => {
                got.insert(k.to_vec(), x.to_vec());
            }
            _ => return false,
        }
    }
    got == fields_map(fields)
}

pub fn chk_entries(r: &Reply, want: &[(Sid, Vec<(Bytes, Bytes)>)]) -> Res {
    if lenient() && matches!(r, Reply::Frame(_)) {
        return Ok(());
    }
    if let Reply::Frame(Frame::Array(v)) = r {
        if v.len() == want.len() && v.iter().zip(want).all(|(f, (id, fl))| entry_matches(f, *id, fl)) {
            return Ok(());
        }
    }
    Err(mm(
        match r {
            Reply::Frame(Frame::Error(_)) => "error-for-value",
            Reply::Frame(_) => "wrong-value",
            _ => "no-reply",
        },
        format!("entries {:?}", want.iter().map(|(id, _)| String::from_utf8_lossy(&fmt_id(*id)).to_string()).collect::<Vec<_>>()),
        r,
    ))
}

fn stream_of<'a>(w: &'a mut World, db: usize, key: &[u8]) -> Result<Option<&'a mut StreamM>, ()> {
    match w.get_mut(db, key) {
        None => Ok(None),
        Some(e) => match &mut e.val {
            Val::Stream(s) => Ok(Some(s)),
            _ => Err(()),
        },
    }
}

fn parse_count(b: &[u8]) -> Option<u64> {
    parse_ll(b).and_then(|c| if c >= 0 { Some(c as u64) } else { None })
}

pub const NAMES: &[&str] = &["XADD", "XLEN", "XRANGE", "XREVRANGE", "XDEL", "XTRIM", "XREAD"];

pub fn exec(w: &mut World, db: usize, name: &str, a: &[Bytes], reply: &Reply) -> Option<Res> {
    if !NAMES.contains(&name) {
        return None;
    }
    Some(inner(w, db, name, a, reply))
}

fn inner(w: &mut World, db: usize, name: &str, a: &[Bytes], reply: &Reply) -> Res {
    (match name {
        "XADD" => {
            // XADD key <*|id> field value [field value ...]  (no NOMKSTREAM/MAXLEN options generated)
            if a.len() < 5 || (a.len() - 3) % 2 != 0 {
                return (chk_err(reply));
            }
            w.touch(db, &a[1]);
            let fields: Vec<(Bytes, Bytes)> = a[3..].chunks(2).map(|p| (p[0].clone(), p[1].clone())).collect();
            let auto = a[2] == b"*";
            let explicit = if auto { None } else { parse_id(&a[2]) };
            if !auto && explicit.is_none() {
                w.label("bad-stream-id");
                return (chk_err(reply));
            }
            let cur = match stream_of(w, db, &a[1]) {
                Err(()) => return (wrong_type(w, reply)),
                Ok(s) => s.map(|s| s.clone()),
            };
            let existed = cur.is_some();
            let mut s = cur.unwrap_or_default();
            let id = if auto {
                // any ID greater than every ID ever added is acceptable; an error only if none exists
                if s.last_id == (u64::MAX, u64::MAX) {
                    w.label("xadd-auto-at-max");
                    return (chk_err(reply));
                }
                let got = match reply {
                    Reply::Frame(f) => string_like(f).and_then(parse_id),
                    _ => None,
                };
                match got {
                    Some(id) if id > s.last_id => {
                        if existed && s.entries.len() < 1 {
                            w.label("xadd-auto-after-emptied");
                        }
                        id
                    }
                    _ => {
                        return (Err(mm(
                            match reply {
                                Reply::Frame(Frame::Error(_)) => "error-for-value",
                                Reply::Frame(_) => "wrong-value",
                                _ => "no-reply",
                            },
                            format!("an ID greater than {}-{}", s.last_id.0, s.last_id.1),
                            reply,
                        )))
                    }
                }
            } else {
                let id = explicit.unwrap();
                if id == (0, 0) || id <= s.last_id {
                    w.label("xadd-id-refused");
                    return (chk_err(reply));
                }
                chk_bulk(reply, &fmt_id(id))?;
                id
            };
            s.entries.insert(id, fields);
            s.last_id = id;
            if existed {
                w.get_mut(db, &a[1]).unwrap().val = Val::Stream(s);
                w.mutated();
            } else {
                w.put(db, &a[1], Val::Stream(s), None);
            }
            Ok(())
        }
        "XLEN" => {
            if a.len() != 2 {
                return (chk_err(reply));
            }
            match stream_of(w, db, &a[1]) {
                Err(()) => wrong_type(w, reply),
                Ok(None) => chk_int(reply, 0),
                Ok(Some(s)) => {
                    let n = s.entries.len() as i64;
                    chk_int(reply, n)
                }
            }
        }
        "XRANGE" | "XREVRANGE" => {
            // XRANGE key start end [COUNT n]
            if a.len() == 5 {
                // a trailing option without its value: ferrous documents a lenient option
                // syntax here; only "some reply" is required
                return (match reply {
                    Reply::Frame(_) => Ok(()),
                    _ => chk_err(reply),
                });
            }
            if a.len() != 4 && a.len() != 6 {
                return (chk_err(reply));
            }
            let (lo_arg, hi_arg) = if name == "XRANGE" { (&a[2], &a[3]) } else { (&a[3], &a[2]) };
            let lo = if lo_arg == b"-" { Some((0, 0)) } else { parse_id(lo_arg) };
            let hi = if hi_arg == b"+" { Some((u64::MAX, u64::MAX)) } else { parse_id(hi_arg) };
            let count = if a.len() == 6 {
                if upper(&a[4]) != "COUNT" {
                    return (chk_err(reply));
                }
                match parse_count(&a[5]) {
                    Some(c) => Some(c),
                    None => return (chk_err(reply)),
                }
            } else {
                None
            };
            let (lo, hi) = match (lo, hi) {
                (Some(l), Some(h)) => (l, h),
                _ => {
                    w.label("bad-stream-id");
                    return (chk_err(reply));
                }
            };
            match stream_of(w, db, &a[1]) {
                Err(()) => wrong_type(w, reply),
                Ok(cur) => {
                    let s = cur.map(|s| s.clone()).unwrap_or_default();
                    let mut sel: Vec<(Sid, Vec<(Bytes, Bytes)>)> = if lo > hi {
                        Vec::new()
                    } else {
                        s.entries.range(lo..=hi).map(|(k, v)| (*k, v.clone())).collect()
                    };
                    if let (Some(first), Some(last)) = (s.entries.keys().next(), s.entries.keys().next_back()) {
                        if lo > *last || hi < *first || lo > hi || (!s.entries.contains_key(&lo) && lo != (0, 0)) || (!s.entries.contains_key(&hi) && hi != (u64::MAX, u64::MAX)) {
                            w.label("range-bound-outside-or-between");
                        }
                    }
                    if name == "XREVRANGE" {
                        sel.reverse();
                    }
                    if let Some(c) = count {
                        // COUNT 0 is not generated (Redis: empty; semantics differ in clones)
                        sel.truncate(c as usize);
                        w.label("range-count");
                    }
                    chk_entries(reply, &sel)
                }
            }
        }
        "XDEL" => {
            if a.len() < 3 {
                return (chk_err(reply));
            }
            w.touch(db, &a[1]);
            let ids: Option<Vec<Sid>> = a[2..].iter().map(|b| parse_id(b)).collect();
            let ids = match ids {
                Some(i) => i,
                None => {
                    w.label("bad-stream-id");
                    return (chk_err(reply));
                }
            };
            match stream_of(w, db, &a[1]) {
                Err(()) => wrong_type(w, reply),
                Ok(None) => chk_int(reply, 0),
                Ok(Some(s)) => {
                    let mut n = 0;
                    let tail = s.entries.keys().next_back().cloned();
                    let mut tail_deleted = false;
                    for id in ids {
                        if s.entries.remove(&id).is_some() {
                            n += 1;
                            if Some(id) == tail {
                                tail_deleted = true;
                            }
                        }
                    }
                    if tail_deleted {
                        w.label("xdel-tail");
                    }
                    if n > 0 {
                        w.mutated();
                    }
                    chk_int(reply, n)
                }
            }
        }
        "XTRIM" => {
            // XTRIM key MAXLEN [=] n
            if a.len() != 4 && a.len() != 5 {
                return (chk_err(reply));
            }
            w.touch(db, &a[1]);
            if upper(&a[2]) != "MAXLEN" {
                return (chk_err(reply));
            }
            let narg = if a.len() == 5 {
                if a[3] != b"=" {
                    // `~` is not generated
                    return (Ok(()));
                }
                &a[4]
            } else {
                &a[3]
            };
            let n = match parse_count(narg) {
                Some(n) => n,
                None => return (chk_err(reply)),
            };
            match stream_of(w, db, &a[1]) {
                Err(()) => wrong_type(w, reply),
                Ok(None) => chk_int(reply, 0),
                Ok(Some(s)) => {
                    let mut ev = 0;
                    while s.entries.len() as u64 > n {
                        let k = *s.entries.keys().next().unwrap();
                        s.entries.remove(&k);
                        ev += 1;
                    }
                    if ev > 0 {
                        w.mutated();
                        w.label("xtrim-evicted");
                    }
                    chk_int(reply, ev)
                }
            }
        }
        "XREAD" => {
            // XREAD [COUNT n] STREAMS k1 .. kn id1 .. idn   (BLOCK is not generated)
            let mut i = 1;
            let mut count = None;
            if a.len() > i + 1 && upper(&a[i]) == "COUNT" {
                match parse_count(&a[i + 1]) {
                    Some(c) => count = Some(c),
                    None => return (chk_err(reply)),
                }
                i += 2;
            }
            if a.len() <= i || upper(&a[i]) != "STREAMS" {
                return (chk_err(reply));
            }
            i += 1;
            let rest = &a[i..];
            if rest.is_empty() || rest.len() % 2 != 0 {
                return (chk_err(reply));
            }
            let n = rest.len() / 2;
            let mut want: Vec<(Bytes, Vec<(Sid, Vec<(Bytes, Bytes)>)>)> = Vec::new();
            for j in 0..n {
                let key = &rest[j];
                let idb = &rest[n + j];
                let s = match stream_of(w, db, key) {
                    Err(()) => return (wrong_type(w, reply)),
                    Ok(s) => s.map(|s| s.clone()).unwrap_or_default(),
                };
                let after = if idb == b"$" {
                    s.last_id
                } else if idb == b"0" {
                    (0, 0)
                } else {
                    match parse_id(idb) {
                        Some(id) => id,
                        None => {
                            w.label("bad-stream-id");
                            return (chk_err(reply));
                        }
                    }
                };
                let mut sel: Vec<(Sid, Vec<(Bytes, Bytes)>)> =
                    s.entries.range((std::ops::Bound::Excluded(after), std::ops::Bound::Unbounded)).map(|(k, v)| (*k, v.clone())).collect();
                if let Some(c) = count {
                    sel.truncate(c as usize);
                }
                if !sel.is_empty() {
                    want.push((key.clone(), sel));
                }
            }
            if want.is_empty() {
                return (chk_empty(reply, true));
            }
            w.label("xread-data");
            let ok = match reply {
                Reply::Frame(Frame::Array(v)) if v.len() == want.len() => v.iter().zip(&want).all(|(f, (k, sel))| match f {
                    Frame::Array(p) if p.len() == 2 => {
                        string_like(&p[0]) == Some(k.as_slice())
                            && match &p[1] {
                                Frame::Array(es) => es.len() == sel.len() && es.iter().zip(sel).all(|(e, (id, fl))| entry_matches(e, *id, fl)),
                                _ => false,
                            }
                    }
                    _ => false,
                }),
                _ => false,
            };
            if ok {
                Ok(())
            } else {
                Err(mm(
                    "wrong-value",
                    format!(
                        "per-stream entries {:?}",
                        want.iter()
                            .map(|(k, sel)| (crate::resp::show_bytes(k), sel.iter().map(|(id, _)| String::from_utf8_lossy(&fmt_id(*id)).to_string()).collect::<Vec<_>>()))
                            .collect::<Vec<_>>()
                    ),
                    reply,
                ))
            }
        }
        _ => chk_err(reply),
    })
}
