//! String and generic key-space commands (property C01, and the TTL commands of C02).

use super::*;

fn wrong_type(w: &mut World, reply: &Reply) -> Res {
    w.label("wrongtype-hit");
    chk_err(reply)
}

/// TTL/PTTL reply check. `unit_ms` is 1000 for TTL, 1 for PTTL.
fn chk_ttl(w: &mut World, db: usize, key: &[u8], reply: &Reply, unit_ms: f64) -> Res {
    let now = w.now;
    match w.get(db, key) {
        None => chk_int(reply, -2),
        Some(e) => match e.ttl {
            None => chk_int(reply, -1),
            Some(d) => {
                // remaining time at the moment the server looked lies in
                // [d.lo - recv, d.hi - send]; one unit of rounding either way is "the remaining time"
                let lo = ((d.lo - now.recv) / unit_ms).floor() - 1.0;
                let hi = ((d.hi - now.send) / unit_ms).ceil() + 1.0;
                match reply {
                    Reply::Frame(Frame::Int(x)) if (*x as f64) >= lo.max(0.0) && (*x as f64) <= hi => Ok(()),
                    _ => Err(mm(kind_of_ttl(reply), format!("remaining time in [{}, {}] (unit {} ms)", lo.max(0.0), hi, unit_ms), reply)),
                }
            }
        },
    }
}

fn kind_of_ttl(r: &Reply) -> &'static str {
    match r {
        Reply::Frame(Frame::Int(_)) => "wrong-ttl",
        Reply::Frame(Frame::Error(_)) => "error-for-value",
        Reply::Frame(_) => "wrong-value",
        _ => "no-reply",
    }
}

pub const NAMES: &[&str] = &["SCAN", "SET", "GET", "GETSET", "SETNX", "SETEX", "PSETEX", "MSET", "MGET", "APPEND", "STRLEN", "GETRANGE", "SETRANGE", "INCR", "DECR", "INCRBY", "DECRBY", "DEL", "EXISTS", "TYPE", "RENAME", "RENAMENX", "KEYS", "DBSIZE", "RANDOMKEY", "FLUSHDB", "FLUSHALL", "EXPIRE", "PEXPIRE", "PERSIST", "TTL", "PTTL"];

pub fn exec(w: &mut World, db: usize, name: &str, a: &[Bytes], reply: &Reply) -> Option<Res> {
    if !NAMES.contains(&name) {
        return None;
    }
    Some(inner(w, db, name, a, reply))
}

fn inner(w: &mut World, db: usize, name: &str, a: &[Bytes], reply: &Reply) -> Res {
    (match name {
        "SET" => set(w, db, a, reply),
        "GET" => {
            if a.len() != 2 {
                return (chk_err(reply));
            }
            match w.get(db, &a[1]).map(|e| e.val.clone()) {
                None => chk_nil(reply),
                Some(Val::Str(s)) => chk_bulk(reply, &s),
                Some(_) => wrong_type(w, reply),
            }
        }
        "GETSET" => {
            if a.len() != 3 {
                return (chk_err(reply));
            }
            w.touch(db, &a[1]);
            match w.get(db, &a[1]).map(|e| e.val.clone()) {
                None => {
                    chk_nil(reply)?;
                    w.put(db, &a[1], Val::Str(a[2].clone()), None);
                    Ok(())
                }
                Some(Val::Str(s)) => {
                    chk_bulk(reply, &s)?;
                    w.put(db, &a[1], Val::Str(a[2].clone()), None);
                    Ok(())
                }
                Some(_) => wrong_type(w, reply),
            }
        }
        "SETNX" => {
            if a.len() != 3 {
                return (chk_err(reply));
            }
            w.touch(db, &a[1]);
            if w.exists(db, &a[1]) {
                chk_int(reply, 0)
            } else {
                chk_int(reply, 1)?;
                w.put(db, &a[1], Val::Str(a[2].clone()), None);
                Ok(())
            }
        }
        "SETEX" | "PSETEX" => {
            if a.len() != 4 {
                return (chk_err(reply));
            }
            w.touch(db, &a[1]);
            match parse_ll(&a[2]) {
                Some(n) if n > 0 => {
                    chk_ok(reply)?;
                    let ms = if name == "SETEX" { n as f64 * 1000.0 } else { n as f64 };
                    let d = w.deadline_from(ms);
                    w.put(db, &a[1], Val::Str(a[3].clone()), Some(d));
                    w.label("ttl-set");
                    Ok(())
                }
                _ => {
                    w.label("bad-integer");
                    chk_err(reply)
                }
            }
        }
        "MSET" => {
            if a.len() < 3 || a.len() % 2 == 0 {
                return (chk_err(reply));
            }
            chk_ok(reply)?;
            for p in a[1..].chunks(2) {
                w.touch(db, &p[0]);
                w.put(db, &p[0], Val::Str(p[1].clone()), None);
            }
            Ok(())
        }
        "MGET" => {
            if a.len() < 2 {
                return (chk_err(reply));
            }
            let mut exp = Vec::new();
            for k in &a[1..] {
                match w.get(db, k).map(|e| e.val.clone()) {
                    Some(Val::Str(s)) => exp.push(Some(s)),
                    Some(_) => {
                        w.label("wrongtype-hit");
                        exp.push(None)
                    }
                    None => exp.push(None),
                }
            }
            chk_opt_list(reply, &exp)
        }
        "APPEND" => {
            if a.len() != 3 {
                return (chk_err(reply));
            }
            w.touch(db, &a[1]);
            match w.get(db, &a[1]).map(|e| e.val.clone()) {
                None => {
                    chk_int(reply, a[2].len() as i64)?;
                    w.put(db, &a[1], Val::Str(a[2].clone()), None);
                    Ok(())
                }
                Some(Val::Str(mut s)) => {
                    s.extend_from_slice(&a[2]);
                    chk_int(reply, s.len() as i64)?;
                    w.get_mut(db, &a[1]).unwrap().val = Val::Str(s);
                    w.mutated();
                    Ok(())
                }
                Some(_) => wrong_type(w, reply),
            }
        }
        "STRLEN" => {
            if a.len() != 2 {
                return (chk_err(reply));
            }
            match w.get(db, &a[1]).map(|e| e.val.clone()) {
                None => chk_int(reply, 0),
                Some(Val::Str(s)) => chk_int(reply, s.len() as i64),
                Some(_) => wrong_type(w, reply),
            }
        }
        "GETRANGE" => {
            if a.len() != 4 {
                return (chk_err(reply));
            }
            let (s, e) = match (parse_ll(&a[2]), parse_ll(&a[3])) {
                (Some(s), Some(e)) => (s, e),
                _ => {
                    w.label("bad-integer");
                    return (chk_err(reply));
                }
            };
            match w.get(db, &a[1]).map(|e| e.val.clone()) {
                None => chk_bulk(reply, b""),
                Some(Val::Str(v)) => {
                    let len = v.len() as i128;
                    let (mut s, mut e) = (s as i128, e as i128);
                    if s < 0 && e < 0 && s > e {
                        return chk_bulk(reply, b"");
                    }
                    if s < 0 {
                        s += len;
                    }
                    if e < 0 {
                        e += len;
                    }
                    if e < 0 {
                        // an end that is still before the string after adding the length:
                        // Redis <= 7 clamps it to 0 (first byte), later versions return the
                        // empty string; both are accepted
                        w.label("boundary-index");
                        let first = if len > 0 && s <= 0 { &v[0..1] } else { &v[0..0] };
                        return match reply {
                            Reply::Frame(f) if string_like(f) == Some(b"") || string_like(f) == Some(first) => Ok(()),
                            _ => Err(mm("wrong-value", "\"\" (or the first byte)", reply)),
                        };
                    }
                    if s < 0 {
                        s = 0;
                    }
                    if e < 0 {
                        e = 0;
                    }
                    if e >= len {
                        e = len - 1;
                    }
                    if a[2].starts_with(b"-") || a[3].starts_with(b"-") || e >= len - 1 {
                        w.label("boundary-index");
                    }
                    if len == 0 || s > e {
                        chk_bulk(reply, b"")
                    } else {
                        chk_bulk(reply, &v[s as usize..=e as usize])
                    }
                }
                Some(_) => wrong_type(w, reply),
            }
        }
        "SETRANGE" => {
            if a.len() != 4 {
                return (chk_err(reply));
            }
            w.touch(db, &a[1]);
            let off = match parse_ll(&a[2]) {
                Some(o) if o >= 0 => o,
                _ => {
                    w.label("bad-integer");
                    return (chk_err(reply));
                }
            };
            let cur = w.get(db, &a[1]).map(|e| e.val.clone());
            match cur {
                Some(Val::Str(_)) | None => {}
                Some(_) => return (wrong_type(w, reply)),
            }
            let cur_s = match cur {
                Some(Val::Str(s)) => Some(s),
                _ => None,
            };
            if a[3].is_empty() {
                // nothing to write: reply current length, never create
                return (chk_int(reply, cur_s.map_or(0, |s| s.len()) as i64));
            }
            if off as i128 + a[3].len() as i128 > 512 * 1024 * 1024 {
                w.label("huge-offset");
                return (chk_err(reply));
            }
            let mut s = cur_s.clone().unwrap_or_default();
            let need = off as usize + a[3].len();
            if s.len() < need {
                s.resize(need, 0);
            }
            s[off as usize..need].copy_from_slice(&a[3]);
            chk_int(reply, s.len() as i64)?;
            match cur_s {
                Some(_) => {
                    w.get_mut(db, &a[1]).unwrap().val = Val::Str(s);
                    w.mutated();
                }
                None => w.put(db, &a[1], Val::Str(s), None),
            }
            Ok(())
        }
        "INCR" | "DECR" | "INCRBY" | "DECRBY" => {
            let want = if name == "INCR" || name == "DECR" { 2 } else { 3 };
            if a.len() != want {
                return (chk_err(reply));
            }
            w.touch(db, &a[1]);
            let delta: i128 = match name {
                "INCR" => 1,
                "DECR" => -1,
                _ => match parse_ll(&a[2]) {
                    Some(n) => {
                        if n == i64::MAX || n == i64::MIN {
                            w.label("boundary-integer");
                        }
                        if name == "INCRBY" {
                            n as i128
                        } else {
                            -(n as i128)
                        }
                    }
                    None => {
                        w.label("bad-integer");
                        return (chk_err(reply));
                    }
                },
            };
            let cur = match w.get(db, &a[1]).map(|e| e.val.clone()) {
                None => 0i128,
                Some(Val::Str(s)) => match parse_ll(&s) {
                    Some(v) => v as i128,
                    None => {
                        w.label("not-an-integer");
                        return (chk_err(reply));
                    }
                },
                Some(_) => return (wrong_type(w, reply)),
            };
            let nv = cur + delta;
            if nv > i64::MAX as i128 || nv < i64::MIN as i128 || (name == "DECRBY" && delta == -(i64::MIN as i128)) {
                w.label("overflow");
                return (chk_err(reply));
            }
            chk_int(reply, nv as i64)?;
            let s = (nv as i64).to_string().into_bytes();
            if let Some(e) = w.get_mut(db, &a[1]) {
                e.val = Val::Str(s);
                w.mutated();
            } else {
                w.put(db, &a[1], Val::Str(s), None);
            }
            Ok(())
        }
        "DEL" => {
            if a.len() < 2 {
                return (chk_err(reply));
            }
            let mut n = 0;
            let mut exp = 0;
            for k in &a[1..] {
                w.touch(db, k);
                if w.exists(db, k) {
                    exp += 1;
                }
                if w.exists(db, k) && w.remove(db, k) {
                    n += 1;
                }
            }
            let _ = exp;
            chk_int(reply, n)
        }
        "EXISTS" => {
            if a.len() < 2 {
                return (chk_err(reply));
            }
            let mut n = 0;
            for k in &a[1..] {
                if w.exists(db, k) {
                    n += 1;
                }
            }
            chk_int(reply, n)
        }
        "TYPE" => {
            if a.len() != 2 {
                return (chk_err(reply));
            }
            let t = w.get(db, &a[1]).map_or("none", |e| e.val.type_name());
            chk_status(reply, t.as_bytes())
        }
        "RENAME" | "RENAMENX" => {
            if a.len() != 3 {
                return (chk_err(reply));
            }
            w.touch(db, &a[1]);
            w.touch(db, &a[2]);
            if !w.exists(db, &a[1]) {
                w.label("missing-key-error");
                return (chk_err(reply));
            }
            if name == "RENAMENX" {
                if w.exists(db, &a[2]) {
                    return (chk_int(reply, 0));
                }
                chk_int(reply, 1)?;
            } else {
                chk_ok(reply)?;
                if a[1] != a[2] && w.exists(db, &a[2]) {
                    w.label("rename-onto-existing");
                }
            }
            if a[1] != a[2] {
                let e = w.dbs[db].keys.remove(&a[1]).unwrap();
                w.dbs[db].keys.insert(a[2].clone(), e);
                w.mutated();
            }
            Ok(())
        }
        "KEYS" => {
            if a.len() != 2 {
                return (chk_err(reply));
            }
            w.resolve_all(db);
            let ks: Vec<Bytes> = w.dbs[db].keys.keys().filter(|k| glob::glob_match(&a[1], k)).cloned().collect();
            chk_bag(reply, &ks)
        }
        "SCAN" => {
            // only the single-call form that covers the whole key space is judged here
            // (cursor 0, COUNT >= number of keys, no MATCH/TYPE); iteration is property C19
            if a.len() != 4 || a[1] != b"0" || upper(&a[2]) != "COUNT" {
                return (match reply {
                    Reply::Frame(_) => Ok(()),
                    _ => chk_err(reply),
                });
            }
            w.resolve_all(db);
            let n = parse_ll(&a[3]).unwrap_or(0);
            let ks: Vec<Bytes> = w.dbs[db].keys.keys().cloned().collect();
            if n < ks.len() as i64 || n <= 0 {
                return (Ok(()));
            }
            match reply {
                Reply::Frame(Frame::Array(v)) if v.len() == 2 && string_like(&v[0]) == Some(b"0") => chk_bag(&Reply::Frame(v[1].clone()), &ks),
                _ => Err(mm("wrong-value", "[\"0\", all keys]", reply)),
            }
        }
        "DBSIZE" => {
            if a.len() != 1 {
                return (chk_err(reply));
            }
            w.resolve_all(db);
            chk_int(reply, w.dbs[db].keys.len() as i64)
        }
        "RANDOMKEY" => {
            if a.len() != 1 {
                return (chk_err(reply));
            }
            w.resolve_all(db);
            if w.dbs[db].keys.is_empty() {
                chk_nil(reply)
            } else {
                match reply {
                    Reply::Frame(f) if string_like(f).map_or(false, |b| w.dbs[db].keys.contains_key(b)) => Ok(()),
                    _ => Err(mm("wrong-value", "one of the existing keys", reply)),
                }
            }
        }
        "FLUSHDB" => {
            if a.len() != 1 {
                return (chk_err(reply));
            }
            chk_ok(reply)?;
            w.write_seq += 1;
            w.flush_seq[db] = w.write_seq;
            if !w.dbs[db].keys.is_empty() {
                w.mutated();
            }
            w.dbs[db].keys.clear();
            Ok(())
        }
        "FLUSHALL" => {
            if a.len() != 1 {
                return (chk_err(reply));
            }
            chk_ok(reply)?;
            w.write_seq += 1;
            for d in 0..16 {
                w.flush_seq[d] = w.write_seq;
                if !w.dbs[d].keys.is_empty() {
                    w.mutated();
                }
                w.dbs[d].keys.clear();
            }
            Ok(())
        }
        "EXPIRE" | "PEXPIRE" => {
            if a.len() != 3 {
                return (chk_err(reply));
            }
            w.touch(db, &a[1]);
            let n = match parse_ll(&a[2]) {
                Some(n) => n,
                None => {
                    w.label("bad-integer");
                    return (chk_err(reply));
                }
            };
            if !w.exists(db, &a[1]) {
                return (chk_int(reply, 0));
            }
            chk_int(reply, 1)?;
            if n <= 0 {
                w.remove(db, &a[1]);
                w.label("expire-nonpositive");
            } else {
                let ms = if name == "EXPIRE" { n as f64 * 1000.0 } else { n as f64 };
                let d = w.deadline_from(ms);
                w.get_mut(db, &a[1]).unwrap().ttl = Some(d);
                w.mutated();
                w.label("ttl-set");
            }
            Ok(())
        }
        "PERSIST" => {
            if a.len() != 2 {
                return (chk_err(reply));
            }
            w.touch(db, &a[1]);
            match w.get_mut(db, &a[1]) {
                Some(e) if e.ttl.is_some() => {
                    e.ttl = None;
                    w.mutated();
                    w.label("ttl-cleared");
                    chk_int(reply, 1)
                }
                _ => chk_int(reply, 0),
            }
        }
        "TTL" => {
            if a.len() != 2 {
                return (chk_err(reply));
            }
            chk_ttl(w, db, &a[1], reply, 1000.0)
        }
        "PTTL" => {
            if a.len() != 2 {
                return (chk_err(reply));
            }
            chk_ttl(w, db, &a[1], reply, 1.0)
        }
        _ => chk_err(reply),
    })
}

fn set(w: &mut World, db: usize, a: &[Bytes], reply: &Reply) -> Res {
    if a.len() < 3 {
        return chk_err(reply);
    }
    w.touch(db, &a[1]);
    let (mut nx, mut xx) = (false, false);
    let mut ex: Option<f64> = None;
    let mut n_expire_opts = 0;
    let mut i = 3;
    let mut bad = false;
    while i < a.len() {
        match upper(&a[i]).as_str() {
            "NX" => {
                nx = true;
                i += 1;
            }
            "XX" => {
                xx = true;
                i += 1;
            }
            o @ ("EX" | "PX") => {
                if i + 1 >= a.len() {
                    bad = true;
                    break;
                }
                match parse_ll(&a[i + 1]) {
                    Some(n) if n > 0 => {
                        ex = Some(if o == "EX" { n as f64 * 1000.0 } else { n as f64 });
                        n_expire_opts += 1;
                    }
                    _ => {
                        bad = true;
                        break;
                    }
                }
                i += 2;
            }
            _ => {
                bad = true;
                break;
            }
        }
    }
    if a.len() > 3 {
        w.label("set-options");
    }
    if bad || (nx && xx) || n_expire_opts > 1 {
        w.label("bad-syntax");
        return chk_err(reply);
    }
    let exists = w.exists(db, &a[1]);
    if (nx && exists) || (xx && !exists) {
        w.label("set-condition-failed");
        return chk_nil(reply);
    }
    chk_ok(reply)?;
    let d = ex.map(|ms| w.deadline_from(ms));
    if d.is_some() {
        w.label("ttl-set");
    }
    if exists && w.dbs[db].keys.get(&a[1]).map_or(false, |e| !matches!(e.val, Val::Str(_))) {
        w.label("overwrite-other-type");
    }
    w.put(db, &a[1], Val::Str(a[2].clone()), d);
    Ok(())
}
