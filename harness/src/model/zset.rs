//! Sorted-set commands (property C04).

use super::coll::norm_range;
use super::*;
use crate::typed;

fn wrong_type(w: &mut World, reply: &Reply) -> Res {
    w.label("wrongtype-hit");
    chk_err(reply)
}

/// Members in (score, member bytes) order.
pub fn ordered(z: &BTreeMap<Bytes, f64>) -> Vec<(Bytes, f64)> {
    let mut v: Vec<(Bytes, f64)> = z.iter().map(|(m, s)| (m.clone(), *s)).collect();
    v.sort_by(|a, b| a.1.partial_cmp(&b.1).unwrap().then_with(|| a.0.cmp(&b.0)));
    v
}

pub fn score_eq(got: &[u8], want: f64) -> bool {
    match std::str::from_utf8(got).ok().and_then(|s| s.parse::<f64>().ok()) {
        Some(g) => {
            if g.is_nan() {
                return false;
            }
            // inf == inf is true; a zero must carry the same sign everywhere it is reported
            // (ZSCORE, WITHSCORES and the pops must agree on one member's score)
            g == want && (g != 0.0 || g.is_sign_negative() == want.is_sign_negative())
        }
        None => false,
    }
}

/// Array of members (exact order), optionally interleaved with scores compared numerically.
pub fn chk_zlist(r: &Reply, items: &[(Bytes, f64)], withscores: bool, nil_ok_when_empty: bool) -> Res {
    if lenient() && matches!(r, Reply::Frame(_)) {
        return Ok(());
    }
    if items.is_empty() && nil_ok_when_empty {
        return chk_empty(r, true);
    }
    if let Reply::Frame(Frame::Array(v)) = r {
        let per = if withscores { 2 } else { 1 };
        if v.len() == items.len() * per {
            let mut ok = true;
            for (i, (m, s)) in items.iter().enumerate() {
                if string_like(&v[i * per]) != Some(m.as_slice()) {
                    ok = false;
                }
                if withscores && !string_like(&v[i * per + 1]).map_or(false, |b| score_eq(b, *s)) {
                    ok = false;
                }
            }
            if ok {
                return Ok(());
            }
        }
    }
    Err(mm(
        match r {
            Reply::Frame(Frame::Error(_)) => "error-for-value",
            Reply::Frame(_) => "wrong-value",
            _ => "no-reply",
        },
        format!(
            "ordered members{} {:?}",
            if withscores { " with scores" } else { "" },
            items.iter().map(|(m, s)| (crate::resp::show_bytes(m), *s)).collect::<Vec<_>>()
        ),
        r,
    ))
}

fn chk_score(r: &Reply, s: f64) -> Res {
    if lenient() && matches!(r, Reply::Frame(_)) {
        return Ok(());
    }
    match r {
        Reply::Frame(f) if string_like(f).map_or(false, |b| score_eq(b, s)) => Ok(()),
        _ => Err(mm(
            match r {
                Reply::Frame(Frame::Error(_)) => "error-for-value",
                Reply::Frame(_) => "wrong-value",
                _ => "no-reply",
            },
            format!("score {}", s),
            r,
        )),
    }
}

fn is_withscores(b: &[u8]) -> bool {
    upper(b) == "WITHSCORES"
}

fn note_ties(w: &mut World, z: &BTreeMap<Bytes, f64>) {
    let o = ordered(z);
    if o.windows(2).any(|p| p[0].1 == p[1].1) {
        w.label("equal-scores");
    }
}

pub const NAMES: &[&str] = &["ZADD", "ZINCRBY", "ZREM", "ZSCORE", "ZCARD", "ZRANK", "ZREVRANK", "ZRANGE", "ZREVRANGE", "ZRANGEBYSCORE", "ZREVRANGEBYSCORE", "ZCOUNT", "ZPOPMIN", "ZPOPMAX"];

pub fn exec(w: &mut World, db: usize, name: &str, a: &[Bytes], reply: &Reply) -> Option<Res> {
    if !NAMES.contains(&name) {
        return None;
    }
    Some(inner(w, db, name, a, reply))
}

fn inner(w: &mut World, db: usize, name: &str, a: &[Bytes], reply: &Reply) -> Res {
    (match name {
        "ZADD" => {
            // only the plain form `ZADD key score member [score member ...]` is generated
            if a.len() < 4 || a.len() % 2 != 0 {
                return (chk_err(reply));
            }
            w.touch(db, &a[1]);
            let mut pairs = Vec::new();
            let mut bad = false;
            for p in a[2..].chunks(2) {
                match parse_f64(&p[0]) {
                    Some(s) => pairs.push((p[1].clone(), s)),
                    None => bad = true,
                }
            }
            match typed!(w, db, &a[1], Val::ZSet) {
                Err(()) => wrong_type(w, reply),
                Ok(cur) => {
                    if bad {
                        w.label("bad-score");
                        if pairs.len() > 0 {
                            w.label("refused-multi-zadd");
                        }
                        return (chk_err(reply));
                    }
                    let existed = cur.is_some();
                    let mut z = cur.map(|z| z.clone()).unwrap_or_default();
                    let mut n = 0;
                    for (m, s) in pairs {
                        match z.insert(m, s) {
                            None => n += 1,
                            Some(old) => {
                                if old != s {
                                    w.label("rescore");
                                }
                            }
                        }
                    }
                    chk_int(reply, n)?;
                    note_ties(w, &z);
                    if existed {
                        w.get_mut(db, &a[1]).unwrap().val = Val::ZSet(z);
                        w.mutated();
                    } else {
                        w.put(db, &a[1], Val::ZSet(z), None);
                    }
                    Ok(())
                }
            }
        }
        "ZINCRBY" => {
            if a.len() != 4 {
                return (chk_err(reply));
            }
            w.touch(db, &a[1]);
            let inc = parse_f64(&a[2]);
            match typed!(w, db, &a[1], Val::ZSet) {
                Err(()) => wrong_type(w, reply),
                Ok(cur) => {
                    let inc = match inc {
                        Some(i) => i,
                        None => {
                            w.label("bad-score");
                            return (chk_err(reply));
                        }
                    };
                    let existed = cur.is_some();
                    let mut z = cur.map(|z| z.clone()).unwrap_or_default();
                    // IEEE arithmetic as in Redis: a new member starts at the increment itself
                    // (so ZINCRBY k -0 m gives -0), an existing one at old + increment
                    let nv = match z.get(&a[3]) {
                        Some(old) => *old + inc,
                        None => inc,
                    };
                    if nv.is_nan() {
                        w.label("nan-increment");
                        return (chk_err(reply));
                    }
                    chk_score(reply, nv)?;
                    z.insert(a[3].clone(), nv);
                    w.label("rescore");
                    note_ties(w, &z);
                    if existed {
                        w.get_mut(db, &a[1]).unwrap().val = Val::ZSet(z);
                        w.mutated();
                    } else {
                        w.put(db, &a[1], Val::ZSet(z), None);
                    }
                    Ok(())
                }
            }
        }
        "ZREM" => {
            if a.len() < 3 {
                return (chk_err(reply));
            }
            w.touch(db, &a[1]);
            match typed!(w, db, &a[1], Val::ZSet) {
                Err(()) => wrong_type(w, reply),
                Ok(None) => chk_int(reply, 0),
                Ok(Some(z)) => {
                    let mut n = 0;
                    for m in &a[2..] {
                        if z.remove(m).is_some() {
                            n += 1;
                        }
                    }
                    if n > 0 {
                        w.mutated();
                        w.label("zremoved");
                    }
                    w.drop_if_empty(db, &a[1]);
                    chk_int(reply, n)
                }
            }
        }
        "ZSCORE" => {
            if a.len() != 3 {
                return (chk_err(reply));
            }
            match typed!(w, db, &a[1], Val::ZSet) {
                Err(()) => wrong_type(w, reply),
                Ok(None) => chk_nil(reply),
                Ok(Some(z)) => match z.get(&a[2]).cloned() {
                    None => chk_nil(reply),
                    Some(s) => chk_score(reply, s),
                },
            }
        }
        "ZCARD" => {
            if a.len() != 2 {
                return (chk_err(reply));
            }
            match typed!(w, db, &a[1], Val::ZSet) {
                Err(()) => wrong_type(w, reply),
                Ok(None) => chk_int(reply, 0),
                Ok(Some(z)) => {
                    let n = z.len() as i64;
                    chk_int(reply, n)
                }
            }
        }
        "ZRANK" | "ZREVRANK" => {
            if a.len() != 3 {
                return (chk_err(reply));
            }
            match typed!(w, db, &a[1], Val::ZSet) {
                Err(()) => wrong_type(w, reply),
                Ok(None) => chk_nil(reply),
                Ok(Some(z)) => {
                    let o = ordered(z);
                    match o.iter().position(|(m, _)| m == &a[2]) {
                        None => chk_nil(reply),
                        Some(i) => {
                            let r = if name == "ZRANK" { i } else { o.len() - 1 - i };
                            chk_int(reply, r as i64)
                        }
                    }
                }
            }
        }
        "ZRANGE" | "ZREVRANGE" => {
            if a.len() < 4 || a.len() > 5 {
                return (chk_err(reply));
            }
            let ws = if a.len() == 5 {
                if !is_withscores(&a[4]) {
                    return (chk_err(reply));
                }
                true
            } else {
                false
            };
            let (s, e) = match (parse_ll(&a[2]), parse_ll(&a[3])) {
                (Some(s), Some(e)) => (s, e),
                _ => {
                    w.label("bad-integer");
                    return (chk_err(reply));
                }
            };
            match typed!(w, db, &a[1], Val::ZSet) {
                Err(()) => wrong_type(w, reply),
                Ok(None) => chk_empty(reply, false),
                Ok(Some(z)) => {
                    let mut o = ordered(z);
                    if name == "ZREVRANGE" {
                        o.reverse();
                    }
                    let l = o.len() as i64;
                    if s < 0 || e < 0 || s >= l - 1 || e >= l - 1 || s > e {
                        w.label("boundary-index");
                    }
                    match norm_range(o.len(), s, e) {
                        None => chk_empty(reply, false),
                        Some((s, e)) => chk_zlist(reply, &o[s..=e], ws, false),
                    }
                }
            }
        }
        "ZRANGEBYSCORE" | "ZREVRANGEBYSCORE" | "ZCOUNT" => {
            if name == "ZCOUNT" {
                if a.len() != 4 {
                    return (chk_err(reply));
                }
            } else if a.len() < 4 || a.len() > 5 {
                // LIMIT is not generated
                return (chk_err(reply));
            }
            let ws = if a.len() == 5 {
                if !is_withscores(&a[4]) {
                    return (chk_err(reply));
                }
                true
            } else {
                false
            };
            let (b1, b2) = match (parse_f64(&a[2]), parse_f64(&a[3])) {
                (Some(x), Some(y)) => (x, y),
                _ => {
                    w.label("bad-score");
                    return (chk_err(reply));
                }
            };
            let (min, max) = if name == "ZREVRANGEBYSCORE" { (b2, b1) } else { (b1, b2) };
            match typed!(w, db, &a[1], Val::ZSet) {
                Err(()) => wrong_type(w, reply),
                Ok(cur) => {
                    let z = cur.map(|z| z.clone()).unwrap_or_default();
                    let mut o: Vec<(Bytes, f64)> = ordered(&z).into_iter().filter(|(_, s)| *s >= min && *s <= max).collect();
                    if min > max {
                        w.label("reversed-bounds");
                    }
                    if min.is_infinite() || max.is_infinite() {
                        w.label("inf-bound");
                    }
                    if name == "ZCOUNT" {
                        return (chk_int(reply, o.len() as i64));
                    }
                    if name == "ZREVRANGEBYSCORE" {
                        o.reverse();
                    }
                    chk_zlist(reply, &o, ws, false)
                }
            }
        }
        "ZPOPMIN" | "ZPOPMAX" => {
            if a.len() < 2 || a.len() > 3 {
                return (chk_err(reply));
            }
            w.touch(db, &a[1]);
            let count = if a.len() == 3 {
                match parse_ll(&a[2]) {
                    Some(c) if c >= 0 => c as u64,
                    // Redis 5-6 treat a negative count as 0, Redis 7 refuses it: not generated
                    Some(_) => return (Ok(())),
                    None => {
                        w.label("bad-integer");
                        return (chk_err(reply));
                    }
                }
            } else {
                1
            };
            match typed!(w, db, &a[1], Val::ZSet) {
                Err(()) => wrong_type(w, reply),
                Ok(None) => chk_empty(reply, true),
                Ok(Some(z)) => {
                    let mut o = ordered(z);
                    if name == "ZPOPMAX" {
                        o.reverse();
                    }
                    let n = std::cmp::min(count, o.len() as u64) as usize;
                    let popped: Vec<(Bytes, f64)> = o[..n].to_vec();
                    for (m, _) in &popped {
                        z.remove(m);
                    }
                    if n > 0 {
                        w.mutated();
                        w.label("zremoved");
                    }
                    w.drop_if_empty(db, &a[1]);
                    chk_zlist(reply, &popped, true, true)
                }
            }
        }
        _ => chk_err(reply),
    })
}
