//! Verdict output. In-process library code (ferrous prints progress lines to stdout) must not
//! pollute the verdict stream, so `capture_stdout()` points fd 1 at /dev/null and verdict
//! lines are written to a duplicate of the original stdout.

use std::io::Write;
use std::os::unix::io::FromRawFd;
use std::sync::Mutex;

static SAVED: Mutex<Option<std::fs::File>> = Mutex::new(None);

/// Redirect the process's fd 1 to /dev/null, keeping the original for `line()`.
pub fn capture_stdout() {
    let mut g = SAVED.lock().unwrap();
    if g.is_some() {
        return;
    }
    unsafe {
        let dup = libc::dup(1);
        if dup < 0 {
            return;
        }
        let devnull = libc::open(b"/dev/null\0".as_ptr() as *const libc::c_char, libc::O_WRONLY);
        if devnull >= 0 {
            let _ = std::io::stdout().flush();
            libc::dup2(devnull, 1);
            libc::close(devnull);
        }
        *g = Some(std::fs::File::from_raw_fd(dup));
    }
}

/// Print one verdict line on the real stdout.
pub fn line(s: &str) {
    let mut g = SAVED.lock().unwrap();
    match g.as_mut() {
        Some(f) => {
            let _ = writeln!(f, "{}", s);
            let _ = f.flush();
        }
        None => {
            println!("{}", s);
        }
    }
}

static SAVED_ERR: Mutex<Option<std::fs::File>> = Mutex::new(None);

/// Same for fd 2: library code logs save errors and injected panics to stderr.
pub fn capture_stderr() {
    let mut g = SAVED_ERR.lock().unwrap();
    if g.is_some() {
        return;
    }
    unsafe {
        let dup = libc::dup(2);
        if dup < 0 {
            return;
        }
        let devnull = libc::open(b"/dev/null\0".as_ptr() as *const libc::c_char, libc::O_WRONLY);
        if devnull >= 0 {
            libc::dup2(devnull, 2);
            libc::close(devnull);
        }
        *g = Some(std::fs::File::from_raw_fd(dup));
    }
}

/// Print one diagnostic line on the real stderr.
pub fn err(s: &str) {
    let mut g = SAVED_ERR.lock().unwrap();
    match g.as_mut() {
        Some(f) => {
            let _ = writeln!(f, "{}", s);
        }
        None => eprintln!("{}", s),
    }
}

/// A handle on the real stdout / stderr for child processes.
pub fn child_stdio() -> (std::process::Stdio, std::process::Stdio) {
    let o = SAVED.lock().unwrap().as_ref().and_then(|f| f.try_clone().ok()).map(std::process::Stdio::from).unwrap_or_else(std::process::Stdio::inherit);
    let e = SAVED_ERR.lock().unwrap().as_ref().and_then(|f| f.try_clone().ok()).map(std::process::Stdio::from).unwrap_or_else(std::process::Stdio::inherit);
    (o, e)
}
