//! C01 — string and key-space commands follow the Redis reference semantics.

use super::hist::HistSpec;
use crate::findings::Active;
use crate::model::{Cmd, World};
use crate::runner::Step;

fn nontrivial(w: &World) -> bool {
    let l = &w.labels;
    w.mutations >= 1
        && (l.contains("wrongtype-hit")
            || l.contains("boundary-index")
            || l.contains("boundary-integer")
            || l.contains("overflow")
            || l.contains("not-an-integer")
            || l.contains("bad-integer")
            || l.contains("set-options")
            || l.contains("rename-onto-existing"))
}

fn excluder(a: &Active, w: &mut World, conn: usize, c: &Cmd) -> Option<&'static str> {
    super::kf::common_excluder(a, w, conn, c)
}

fn fixed_cases() -> Vec<Vec<Step>> {
    Vec::new()
}

pub fn spec() -> HistSpec {
    HistSpec {
        id: "C01",
        rule: "random histories of 1..40 string/key-space commands over a colliding key pool, compared step by step with the reference model, canonical dump after every refused command and at the end; non-trivial = at least one successful mutation and at least one of {wrong-type hit, boundary index/integer, overflow, non-integer, SET option combination, rename onto an existing key}; distinct by hash of the command list",
        cmd: || crate::gen::with_arity_noise(crate::gen::c01_cmd()),
        history: None,
        max_len: 40,
        quick_cases: 8000,
        thorough_cases: 150000,
        nontrivial,
        probes: vec![(super::kf::K_EMPTY_KEY, super::kf::probe_empty_key), (super::kf::K_LAX_INT, super::kf::probe_lax_int)],
        excluder,
        fixed_cases,
        label_floors: vec![("wrongtype-hit", 100), ("boundary-index", 50), ("set-options", 100), ("overflow", 10)],
        assumptions: vec!["reference model written from the Redis command documentation (DESIGN.md Appendix B)", "error replies compare equal regardless of wording; status and bulk strings with equal bytes compare equal"],
        ..Default::default()
    }
}
