//! C02 — expiration is exact: never early, never observable late, never spurious.
//! Part A: black-box real-time histories against the three-valued timed model.

use super::hist::HistSpec;
use crate::findings::Active;
use crate::model::{Cmd, World};

fn nontrivial(w: &World) -> bool {
    w.labels.contains("ttl-crossed") || (w.labels.contains("ttl-cleared") && w.labels.contains("ttl-set"))
}

fn excluder(a: &Active, w: &mut World, conn: usize, c: &Cmd) -> Option<&'static str> {
    super::kf::common_excluder(a, w, conn, c)
}

pub fn spec() -> HistSpec {
    HistSpec {
        id: "C02",
        rule: "A: generated real-time histories of 8..50 steps over 5 keys: TTL-setting commands (SET EX/PX with NX/XX, SETEX, PSETEX, EXPIRE, PEXPIRE; 40 ms .. 1.5 s and long) on all six value types, TTL-clearing (PERSIST, SET, GETSET, MSET), TTL-moving (RENAME, RENAMENX), in-place modification, emptying and re-creating, reads through every family (GET, EXISTS, TYPE, TTL, PTTL, STRLEN, GETRANGE, LLEN, LRANGE, SCARD, HLEN, ZCARD, XLEN, MGET, KEYS, DBSIZE, SCAN, RANDOMKEY), create-or-update writes, and sleeps of 2 ms .. 1.1 s; a third of the histories end with a 2.2 s wait (two sweeper periods) before the final dump. Oracle: three-valued timed model - for a TTL d set by a request sent at s0 and answered at s1 the deadline lies in [s0+d, s1+d]; a request sent after the interval must see the key absent, one answered before it must see it intact, one overlapping it is not asserted (the case ends); TTL/PTTL must lie in the interval the clock allows (+-1 unit), -1 without TTL, -2 when absent; the dump must contain every key without an elapsed deadline. Non-trivial = a deadline elapsed inside the case and was followed by an asserted command, or a TTL was set and later cleared; distinct by hash of the step list. B (in-process, cfg(ferrous_verif) sync point): for generated (initial value type x operation) pairs a key's TTL elapses, the sweeper collects it and is parked between its scan and its deletions while the key is re-created / overwritten / renamed onto / persisted through the storage API; after the released pass and one more pass the key's fate must be the model's (a key (re)created after its old deadline survives with its new value). The first batch enumerates all 72 pairs; non-trivial = a pair executed while the sweeper was actually parked",
        history: Some(crate::gen::c02_history),
        max_len: 50,
        quick_cases: 330,
        thorough_cases: 3000,
        nontrivial,
        probes: vec![(super::kf::K_LAX_INT, super::kf::probe_lax_int)],
        excluder,
        label_floors: vec![("ttl-crossed", 150), ("ttl-cleared", 20), ("ttl-overwritten", 50), ("ttl-set", 200), ("B-scenario-inside-the-window", 200)],
        assumptions: vec!["harness clock and server clock are the same CLOCK_MONOTONIC; a command is executed between its send and receive timestamps", "nothing is asserted for a command whose window contains the deadline of a key it touches"],
        timed: true,
        max_shrink_execs: 40,
        pre_phase: Some(super::c02b::phase),
        pre_replay: Some(super::c02b::replay),
        workers: Some(14),
        ..Default::default()
    }
}
