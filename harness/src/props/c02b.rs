//! C02 part B — the sweeper's window between its scan (read lock) and its deletions (write
//! lock), owned by the harness through the cfg(ferrous_verif) sync point.
//!
//! For every generated (initial value type, operation) the harness gives a key a short TTL,
//! lets the sweeper collect it, and - while the sweeper is parked between collecting and
//! deleting - re-creates / overwrites / renames onto / persists the key through the storage
//! API, then releases the sweeper, waits for the pass to complete and checks the key's fate:
//! a key that was (re)created after its old deadline must survive the pass with its new value.

use crate::driver::{hash_debug, seeded_runner, Evidence, Tier};
use ferrous::storage::engine::{GetResult, StorageEngine};
use ferrous::storage::Value;
use proptest::prelude::*;
use proptest::strategy::ValueTree;
use serde_json::json;
use std::collections::HashMap;
use std::sync::Arc;
use std::time::Duration;

const GATE: &str = "sweeper:after_collect";

fn fnv_shard(key: &[u8]) -> u64 {
    let mut h: u64 = 0xcbf29ce484222325;
    for b in key {
        h ^= *b as u64;
        h = h.wrapping_mul(0x100000001b3);
    }
    h % 16
}

fn key_in_shard(prefix: &str, shard: u64) -> Vec<u8> {
    for i in 0..10_000 {
        let k = format!("{}:{}", prefix, i).into_bytes();
        if fnv_shard(&k) == shard {
            return k;
        }
    }
    unreachable!()
}

pub const N_TYPES: usize = 6;
pub const N_OPS: usize = 12;

pub fn op_name(op: usize) -> &'static str {
    ["set", "set-with-long-ttl", "set-nx", "incr", "lpush", "sadd", "hset", "zadd", "rename-onto", "append", "nothing", "persist"][op]
}

fn create(e: &Arc<StorageEngine>, db: usize, k: &[u8], ty: usize, ttl: Duration) {
    match ty {
        0 => e.set_string_ex(db, k.to_vec(), b"old".to_vec(), ttl).unwrap(),
        1 => {
            e.lpush(db, k.to_vec(), vec![b"old".to_vec()]).unwrap();
            e.expire(db, k, ttl).unwrap();
        }
        2 => {
            e.sadd(db, k.to_vec(), vec![b"old".to_vec()]).unwrap();
            e.expire(db, k, ttl).unwrap();
        }
        3 => {
            e.hset(db, k.to_vec(), vec![(b"f".to_vec(), b"old".to_vec())]).unwrap();
            e.expire(db, k, ttl).unwrap();
        }
        4 => {
            e.zadd(db, k.to_vec(), b"old".to_vec(), 1.0).unwrap();
            e.expire(db, k, ttl).unwrap();
        }
        _ => {
            let mut f = HashMap::new();
            f.insert(b"f".to_vec(), b"old".to_vec());
            e.xadd(db, k.to_vec(), f).unwrap();
            e.expire(db, k, ttl).unwrap();
        }
    }
}

/// Apply the operation while the sweeper is parked. Returns a description of what the key
/// must look like after the pass: None = absent, Some(type name).
fn apply(e: &Arc<StorageEngine>, db: usize, k: &[u8], live: &[u8], op: usize) -> Result<Option<&'static str>, String> {
    let err = |x: ferrous::FerrousError| format!("{} failed: {}", op_name(op), x);
    Ok(match op {
        0 => {
            e.set_string(db, k.to_vec(), b"new".to_vec()).map_err(err)?;
            Some("string")
        }
        1 => {
            e.set_string_ex(db, k.to_vec(), b"new".to_vec(), Duration::from_secs(100)).map_err(err)?;
            Some("string")
        }
        2 => {
            if !e.set_string_nx(db, k.to_vec(), b"new".to_vec()).map_err(err)? {
                return Err("SET NX on a key whose deadline has passed was refused".into());
            }
            Some("string")
        }
        3 => {
            let v = e.incr(db, k.to_vec()).map_err(err)?;
            if v != 1 {
                return Err(format!("INCR on a key whose deadline has passed returned {}", v));
            }
            Some("string")
        }
        4 => {
            e.lpush(db, k.to_vec(), vec![b"new".to_vec()]).map_err(err)?;
            Some("list")
        }
        5 => {
            e.sadd(db, k.to_vec(), vec![b"new".to_vec()]).map_err(err)?;
            Some("set")
        }
        6 => {
            e.hset(db, k.to_vec(), vec![(b"f".to_vec(), b"new".to_vec())]).map_err(err)?;
            Some("hash")
        }
        7 => {
            e.zadd(db, k.to_vec(), b"new".to_vec(), 2.0).map_err(err)?;
            Some("zset")
        }
        8 => {
            e.set_string(db, live.to_vec(), b"moved".to_vec()).map_err(err)?;
            e.rename(db, live, k.to_vec()).map_err(err)?;
            Some("string")
        }
        9 => {
            let n = e.append(db, k.to_vec(), b"new".to_vec()).map_err(err)?;
            if n != 3 {
                return Err(format!("APPEND on a key whose deadline has passed returned length {}", n));
            }
            Some("string")
        }
        10 => None,
        _ => {
            if e.persist(db, k).map_err(err)? {
                return Err("PERSIST on a key whose deadline has passed reported success".into());
            }
            None
        }
    })
}

fn type_of(e: &Arc<StorageEngine>, db: usize, k: &[u8]) -> Option<&'static str> {
    match e.get(db, k).ok()? {
        GetResult::Found(v) => Some(match v {
            Value::String(_) => "string",
            Value::List(_) => "list",
            Value::Set(_) => "set",
            Value::Hash(_) => "hash",
            Value::SortedSet(_) => "zset",
            Value::Stream(_) => "stream",
        }),
        _ => None,
    }
}

fn wait_pass(after: u64, max: Duration) -> bool {
    let deadline = std::time::Instant::now() + max;
    while std::time::Instant::now() < deadline {
        if ferrous::verif::sweep_passes() > after {
            return true;
        }
        std::thread::sleep(Duration::from_millis(5));
    }
    false
}

pub struct BatchResult {
    pub in_window: bool,
    pub failures: Vec<(usize, usize, String)>,
}

/// Run one batch of scenarios (type, op), all keys in one shard of one database.
pub fn run_batch(e: &Arc<StorageEngine>, batch_no: u64, scen: &[(usize, usize)]) -> Result<BatchResult, String> {
    let db = (batch_no % 16) as usize;
    let shard = (batch_no / 16) % 16;
    let keys: Vec<Vec<u8>> = (0..scen.len()).map(|i| key_in_shard(&format!("b{}:k{}", batch_no, i), shard)).collect();
    let lives: Vec<Vec<u8>> = (0..scen.len()).map(|i| format!("b{}:live{}", batch_no, i).into_bytes()).collect();
    ferrous::verif::arm(GATE);
    for (i, (ty, _)) in scen.iter().enumerate() {
        create(e, db, &keys[i], *ty, Duration::from_millis(25));
    }
    let parked = ferrous::verif::wait_parked(GATE, Duration::from_secs(4));
    // every key's deadline has passed by now (a pass starts at most once per second)
    std::thread::sleep(Duration::from_millis(if parked { 0 } else { 30 }));
    let mut expect = Vec::new();
    let mut failures = Vec::new();
    for (i, (ty, op)) in scen.iter().enumerate() {
        match apply(e, db, &keys[i], &lives[i], *op) {
            Ok(x) => expect.push(x),
            Err(m) => {
                failures.push((*ty, *op, m));
                expect.push(None);
            }
        }
    }
    let before = ferrous::verif::sweep_passes();
    ferrous::verif::disarm(GATE);
    // the parked pass and one more full pass
    if !wait_pass(before, Duration::from_secs(4)) || !wait_pass(before + 1, Duration::from_secs(4)) {
        return Err("sweeper pass did not complete".into());
    }
    for (i, (ty, op)) in scen.iter().enumerate() {
        let got = type_of(e, db, &keys[i]);
        if got != expect[i] && !failures.iter().any(|f| f.0 == *ty && f.1 == *op) {
            failures.push((
                *ty,
                *op,
                format!(
                    "key of type #{} whose TTL elapsed, then '{}' while the sweeper was between its scan and its deletions: after the pass the key is {:?}, expected {:?}",
                    ty,
                    op_name(*op),
                    got,
                    expect[i]
                ),
            ));
        }
    }
    for k in keys.iter().chain(lives.iter()) {
        let _ = e.delete(db, k);
    }
    Ok(BatchResult { in_window: parked, failures })
}

pub fn phase(ev: &mut Evidence, tier: Tier, seed: u64) {
    let batches = tier.pick(10u64, 150u64);
    let e = StorageEngine::new();
    let mut runner = seeded_runner(seed, 900);
    let strat = proptest::collection::vec((0..N_TYPES, 0..N_OPS), 48..=48);
    let mut in_window = 0u64;
    // first batch enumerates every (type, op) pair once
    for b in 0..batches {
        let scen: Vec<(usize, usize)> = if b == 0 { (0..N_TYPES).flat_map(|t| (0..N_OPS).map(move |o| (t, o))).collect() } else { strat.new_tree(&mut runner).unwrap().current() };
        match run_batch(&e, b + seed.wrapping_mul(7919) % 1000 * 1000, &scen) {
            Ok(r) => {
                ev.evaluations += scen.len() as u64;
                ev.count_label("B-sweeper-window-scenario", scen.len() as u64);
                if r.in_window {
                    in_window += scen.len() as u64;
                    for s in &scen {
                        if s.1 != 10 {
                            ev.nontrivial.insert(hash_debug(&("c02b", s.0, s.1)));
                        }
                    }
                }
                if b == 0 {
                    ev.add_sample(json!({"kind": "sweeper-window", "scenarios": scen.iter().take(6).map(|s| json!({"initial_type": s.0, "op": op_name(s.1)})).collect::<Vec<_>>(), "in_window": r.in_window}));
                }
                for (ty, op, what) in r.failures.iter().take(4) {
                    ev.violation(what, "sweeper-window", json!({"kind": "sweeper-window", "type": ty, "op": op}));
                }
            }
            Err(m) => ev.infra.push(format!("sweeper batch: {}", m)),
        }
    }
    ev.count_label("B-scenario-inside-the-window", in_window);
}

pub fn replay(v: &serde_json::Value) -> Option<i32> {
    if v.get("kind").and_then(|k| k.as_str()) != Some("sweeper-window") {
        return None;
    }
    let ty = v.get("type").and_then(|x| x.as_u64()).unwrap_or(0) as usize;
    let op = v.get("op").and_then(|x| x.as_u64()).unwrap_or(0) as usize;
    let e = StorageEngine::new();
    for i in 0..3 {
        match run_batch(&e, 7000 + i, &[(ty, op)]) {
            Ok(r) if !r.failures.is_empty() => {
                crate::outln!("replay: FAIL {}", r.failures[0].2);
                return Some(1);
            }
            Ok(_) => {}
            Err(m) => {
                crate::outln!("replay: inconclusive {}", m);
                return Some(2);
            }
        }
    }
    crate::outln!("replay: PASS");
    Some(0)
}
