//! C03 — list, set and hash commands follow the Redis reference semantics.

use super::hist::HistSpec;
use crate::findings::Active;
use crate::model::{Cmd, World};
use crate::runner::Step;

fn nontrivial(w: &World) -> bool {
    let l = &w.labels;
    w.mutations >= 1 && (l.contains("boundary-index") || l.contains("negative-count") || l.contains("key-emptied") || l.contains("algebra-missing-or-wrongtype"))
}

fn excluder(a: &Active, w: &mut World, conn: usize, c: &Cmd) -> Option<&'static str> {
    super::kf::common_excluder(a, w, conn, c)
}

fn fixed_cases() -> Vec<Vec<Step>> {
    Vec::new()
}

pub fn spec() -> HistSpec {
    HistSpec {
        id: "C03",
        rule: "random histories of 1..40 list/set/hash commands over a colliding key and member pool, compared step by step with the reference model (lists exact, sets/hashes as multisets, random picks by validity then adopted), canonical dump after every refused command and at the end; non-trivial = at least one successful mutation and at least one of {boundary index on a non-empty collection, negative count, collection emptied, set algebra with a missing or wrong-type key}; distinct by hash of the command list",
        cmd: || crate::gen::with_arity_noise(crate::gen::c03_cmd()),
        history: Some(|max_len| {
            use proptest::prelude::*;
            (0u8..3).prop_flat_map(move |f| super::hist::history_strategy(crate::gen::with_arity_noise(crate::gen::c03_cmd_focus(f)), max_len)).boxed()
        }),
        max_len: 40,
        quick_cases: 8000,
        thorough_cases: 150000,
        nontrivial,
        probes: vec![(super::kf::K_LAX_INT, super::kf::probe_lax_int)],
        excluder,
        fixed_cases,
        label_floors: vec![("wrongtype-hit", 100), ("boundary-index", 100), ("key-emptied", 100), ("negative-count", 50), ("random-pick", 50), ("algebra-missing-or-wrongtype", 50)],
        assumptions: vec!["reference model written from the Redis command documentation (DESIGN.md Appendix B)", "error replies compare equal regardless of wording"],
        ..Default::default()
    }
}
