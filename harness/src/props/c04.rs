//! C04 — sorted sets stay totally ordered and consistent under every update.
//! Part B (commands over the socket); part A (skip-list structure, in-process) is in c04a.rs.

use super::hist::HistSpec;
use crate::findings::Active;
use crate::model::{Cmd, World};
use crate::runner::Step;

fn nontrivial(w: &World) -> bool {
    let l = &w.labels;
    w.mutations >= 2 && (l.contains("rescore") || l.contains("equal-scores")) && l.contains("zremoved")
}

fn excluder(a: &Active, w: &mut World, conn: usize, c: &Cmd) -> Option<&'static str> {
    super::kf::common_excluder(a, w, conn, c)
}

fn fixed_cases() -> Vec<Vec<Step>> {
    Vec::new()
}

pub fn spec() -> HistSpec {
    HistSpec {
        id: "C04",
        rule: "A (in-process): generated insert/re-score/remove/range sequences of 1..120 ops on SkipList<Vec<u8>, f64> (12 members, 14 colliding scores), each run 4 times (random tower heights), checked after every op by the cfg(ferrous_verif) structural invariant walker and an ordered model through all public queries; non-trivial = a re-score that moved a member or an equal-score tie, plus a removal from a non-empty list. B: random histories of 1..40 sorted-set commands (scores drawn to collide: equal, -0, +-inf, neighbours, NaN/invalid in any position), compared step by step with an ordered (score, member bytes) model, canonical ZRANGE WITHSCORES dump after every refused command and at the end; non-trivial = a re-score or an equal-score tie together with at least one removal; distinct by hash of the command list",
        cmd: || crate::gen::with_arity_noise(crate::gen::c04_cmd()),
        history: None,
        max_len: 40,
        quick_cases: 8000,
        thorough_cases: 150000,
        nontrivial,
        probes: vec![(super::kf::K_LAX_INT, super::kf::probe_lax_int)],
        excluder,
        fixed_cases,
        label_floors: vec![("rescore", 200), ("equal-scores", 200), ("zremoved", 200), ("bad-score", 100), ("refused-multi-zadd", 30), ("inf-bound", 50), ("reversed-bounds", 50), ("key-emptied", 50)],
        pre_phase: Some(super::c04a::phase),
        pre_replay: Some(super::c04a::replay),
        assumptions: vec!["scores compare numerically (parsed f64, -0 == 0), not as text", "ZPOPMIN/ZPOPMAX on a missing key may answer a nil or an empty array"],
        ..Default::default()
    }
}
