//! C04 part A — skip-list structure, in-process: generated insert / re-score / remove
//! sequences on `SkipList<Vec<u8>, f64>`, checked after every operation by the structural
//! invariant hook and against an ordered model through the public queries.

use crate::driver::{hash_debug, seeded_runner, Evidence, Tier};
use ferrous::storage::skiplist::SkipList;
use proptest::prelude::*;
use proptest::strategy::ValueTree;
use serde_json::json;
use std::collections::BTreeMap;

#[derive(Clone, Debug)]
pub enum Op {
    Insert(usize, usize),
    Remove(usize),
    RangeRank(usize, usize),
    RangeScore(usize, usize),
}

pub fn members() -> Vec<Vec<u8>> {
    vec![b"a".to_vec(), b"b".to_vec(), b"c".to_vec(), b"".to_vec(), b"aa".to_vec(), b"\xff".to_vec(), b"\x00".to_vec(), b"ab".to_vec(), b"B".to_vec(), b"z".to_vec(), b"a\x00".to_vec(), b"10".to_vec()]
}

pub fn scores() -> Vec<f64> {
    vec![0.0, 1.0, -0.0, 1.0000000000000002, 0.9999999999999999, -1.0, 2.0, f64::INFINITY, f64::NEG_INFINITY, 1e308, 5e-324, 1.5, -1e308, 3.0]
}

fn op() -> BoxedStrategy<Op> {
    let nm = members().len();
    let ns = scores().len();
    prop_oneof![
        10 => (0..nm, 0..ns).prop_map(|(m, s)| Op::Insert(m, s)),
        // equal scores on purpose
        4 => (0..nm, 0..2usize).prop_map(|(m, s)| Op::Insert(m, s)),
        6 => (0..nm).prop_map(Op::Remove),
        2 => (0..14usize, 0..14usize).prop_map(|(a, b)| Op::RangeRank(a, b)),
        2 => (0..ns, 0..ns).prop_map(|(a, b)| Op::RangeScore(a, b)),
    ]
    .boxed()
}

fn ordered(m: &BTreeMap<Vec<u8>, f64>) -> Vec<(Vec<u8>, f64)> {
    let mut v: Vec<(Vec<u8>, f64)> = m.iter().map(|(k, s)| (k.clone(), *s)).collect();
    v.sort_by(|a, b| a.1.partial_cmp(&b.1).unwrap().then_with(|| a.0.cmp(&b.0)));
    v
}

fn same(a: &[(Vec<u8>, f64)], b: &[(Vec<u8>, f64)]) -> bool {
    a.len() == b.len() && a.iter().zip(b).all(|(x, y)| x.0 == y.0 && x.1 == y.1)
}

/// Returns Ok((rescored_across_neighbour_or_tie, removal_interleaved)) or the first failure.
pub fn run_seq(ops: &[Op]) -> Result<(bool, bool), String> {
    let sl: SkipList<Vec<u8>, f64> = SkipList::new();
    let mem = members();
    let sc = scores();
    let mut model: BTreeMap<Vec<u8>, f64> = BTreeMap::new();
    let mut interesting = false;
    let mut removed_after_insert = false;
    for (i, o) in ops.iter().enumerate() {
        match o {
            Op::Insert(m, s) => {
                let before = ordered(&model);
                let old = sl.insert(mem[*m].clone(), sc[*s]);
                let mold = model.insert(mem[*m].clone(), sc[*s]);
                if old.map(|x| x.to_bits()) != mold.map(|x| x.to_bits()) && !(old.is_some() && mold.is_some() && old == mold) {
                    return Err(format!("op {} {:?}: insert returned {:?}, model {:?}", i, o, old, mold));
                }
                let after = ordered(&model);
                if mold.is_some() {
                    let pb = before.iter().position(|x| x.0 == mem[*m]);
                    let pa = after.iter().position(|x| x.0 == mem[*m]);
                    if pb != pa {
                        interesting = true;
                    }
                }
                if after.windows(2).any(|w| w[0].1 == w[1].1) {
                    interesting = true;
                }
            }
            Op::Remove(m) => {
                let r = sl.remove(&mem[*m]);
                let mr = model.remove(&mem[*m]);
                if r.is_some() != mr.is_some() || (r.is_some() && r != mr) {
                    return Err(format!("op {} {:?}: remove returned {:?}, model {:?}", i, o, r, mr));
                }
                if mr.is_some() && !model.is_empty() {
                    removed_after_insert = true;
                }
            }
            Op::RangeRank(a, b) => {
                let ord = ordered(&model);
                let got = sl.range_by_rank(*a, *b).items;
                let want: Vec<(Vec<u8>, f64)> = if *a >= ord.len() || a > b { vec![] } else { ord[*a..=(*b).min(ord.len() - 1)].to_vec() };
                if !same(&got, &want) {
                    return Err(format!("op {} {:?}: range_by_rank gave {:?}, model {:?}", i, o, got, want));
                }
            }
            Op::RangeScore(a, b) => {
                let (lo, hi) = (sc[*a], sc[*b]);
                let got = sl.range_by_score(lo, hi).items;
                let want: Vec<(Vec<u8>, f64)> = ordered(&model).into_iter().filter(|x| x.1 >= lo && x.1 <= hi).collect();
                if !same(&got, &want) {
                    return Err(format!("op {} {:?}: range_by_score({}, {}) gave {:?}, model {:?}", i, o, lo, hi, got, want));
                }
            }
        }
        // structural invariants after every operation
        if let Err(e) = sl.verif_check_invariants() {
            return Err(format!("after op {} {:?}: invariant broken: {}", i, o, e));
        }
        // public queries against the ordered model
        let ord = ordered(&model);
        if sl.len() != ord.len() {
            return Err(format!("after op {} {:?}: len {} model {}", i, o, sl.len(), ord.len()));
        }
        let all = sl.range_by_rank(0, ord.len().saturating_sub(1)).items;
        if !same(&all, &ord) {
            return Err(format!("after op {} {:?}: full range {:?}, model {:?}", i, o, all, ord));
        }
        for (r, (k, s)) in ord.iter().enumerate() {
            if sl.get_rank(k) != Some(r) {
                return Err(format!("after op {} {:?}: get_rank({:?}) = {:?}, model {}", i, o, k, sl.get_rank(k), r));
            }
            match sl.get_by_rank(r) {
                Some((gk, gs)) if gk == *k && gs == *s => {}
                other => return Err(format!("after op {} {:?}: get_by_rank({}) = {:?}, model ({:?}, {})", i, o, r, other, k, s)),
            }
            if sl.get_score(k) != Some(*s) {
                return Err(format!("after op {} {:?}: get_score({:?}) = {:?}, model {}", i, o, k, sl.get_score(k), s));
            }
        }
        if sl.get_by_rank(ord.len()).is_some() {
            return Err(format!("after op {} {:?}: get_by_rank(len) returned an element", i, o));
        }
        for k in &mem {
            if !model.contains_key(k) && (sl.get_score(k).is_some() || sl.get_rank(k).is_some()) {
                return Err(format!("after op {} {:?}: absent member {:?} has a score or rank", i, o, k));
            }
        }
    }
    Ok((interesting, removed_after_insert))
}

pub fn ops2j(ops: &[Op]) -> serde_json::Value {
    json!({"kind": "skiplist", "ops": ops.iter().map(|o| match o {
        Op::Insert(m, s) => json!(["insert", m, s]),
        Op::Remove(m) => json!(["remove", m]),
        Op::RangeRank(a, b) => json!(["range_rank", a, b]),
        Op::RangeScore(a, b) => json!(["range_score", a, b]),
    }).collect::<Vec<_>>()})
}

pub fn j2ops(v: &serde_json::Value) -> Vec<Op> {
    v.get("ops").and_then(|o| o.as_array()).map(|a| {
        a.iter().filter_map(|x| {
            let x = x.as_array()?;
            let n = |i: usize| x.get(i).and_then(|v| v.as_u64()).unwrap_or(0) as usize;
            match x.first()?.as_str()? {
                "insert" => Some(Op::Insert(n(1), n(2))),
                "remove" => Some(Op::Remove(n(1))),
                "range_rank" => Some(Op::RangeRank(n(1), n(2))),
                "range_score" => Some(Op::RangeScore(n(1), n(2))),
                _ => None,
            }
        }).collect()
    }).unwrap_or_default()
}

/// Phase run before the command histories of C04; accumulates into the same evidence.
pub fn phase(ev: &mut Evidence, tier: Tier, seed: u64) {
    let n = tier.pick(4000u64, 100_000u64);
    let threads = 8usize;
    let results: Vec<(u64, Vec<u64>, Vec<serde_json::Value>, Vec<(String, serde_json::Value)>, u64)> = std::thread::scope(|sc| {
        let hs: Vec<_> = (0..threads)
            .map(|t| {
                sc.spawn(move || {
                    let strat = proptest::collection::vec(op(), 1..120);
                    let mut runner = seeded_runner(seed, 100 + t as u64);
                    let mut evals = 0u64;
                    let mut nontriv = Vec::new();
                    let mut samples = Vec::new();
                    let mut viols = Vec::new();
                    let mut replays = 0u64;
                    for _ in 0..(n / threads as u64) {
                        let mut tree = strat.new_tree(&mut runner).unwrap();
                        let ops = tree.current();
                        // tower heights are random: run each sequence several times
                        let mut res = Ok((false, false));
                        for _ in 0..4 {
                            replays += 1;
                            res = run_seq(&ops);
                            if res.is_err() {
                                break;
                            }
                        }
                        evals += 1;
                        match res {
                            Ok((a, b)) => {
                                if a && b {
                                    nontriv.push(hash_debug(&ops));
                                    if samples.len() < 1 {
                                        samples.push(ops2j(&ops));
                                    }
                                }
                            }
                            Err(e0) => {
                                if viols.len() >= 3 {
                                    continue;
                                }
                                let fails = |o: &Vec<Op>| -> Option<String> {
                                    for _ in 0..8 {
                                        if let Err(e) = run_seq(o) {
                                            return Some(e);
                                        }
                                    }
                                    None
                                };
                                let mut best = (ops.clone(), e0);
                                let mut k = 0;
                                'o: while k < 400 && tree.simplify() {
                                    loop {
                                        k += 1;
                                        let c = tree.current();
                                        if let Some(e) = fails(&c) {
                                            best = (c, e);
                                            break;
                                        }
                                        if k >= 400 || !tree.complicate() {
                                            break 'o;
                                        }
                                    }
                                }
                                viols.push((best.1, ops2j(&best.0)));
                            }
                        }
                    }
                    (evals, nontriv, samples, viols, replays)
                })
            })
            .collect();
        hs.into_iter().map(|h| h.join().unwrap()).collect()
    });
    let mut replays = 0;
    for (evals, nontriv, samples, viols, rp) in results {
        ev.evaluations += evals;
        ev.count_label("A-skiplist-sequence", evals);
        for h in nontriv {
            ev.nontrivial.insert(h);
        }
        for s in samples {
            if ev.samples.len() < 2 {
                ev.samples.push(s);
            }
        }
        for (what, j) in viols {
            ev.violation(&what, "skiplist-structure", j);
        }
        replays += rp;
    }
    ev.extra.insert("skiplist_sequence_executions".into(), json!(replays));
}

pub fn replay(v: &serde_json::Value) -> Option<i32> {
    if v.get("kind").and_then(|k| k.as_str()) != Some("skiplist") {
        return None;
    }
    let ops = j2ops(v);
    for _ in 0..16 {
        if let Err(e) = run_seq(&ops) {
            crate::outln!("replay: FAIL {}", e);
            return Some(1);
        }
    }
    crate::outln!("replay: PASS");
    Some(0)
}
