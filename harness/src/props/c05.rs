//! C05 — every request gets exactly one reply, in order, and errors are replies.
//!
//! Pipelines of items, each item followed by `ECHO <unique marker>`; the byte stream is cut at
//! generated points. Oracle: the independent decoder splits the received stream into exactly
//! the expected number of well-formed frames, the marker frames sit where they must (so count,
//! order and framing are checked in one go), impossible commands are answered by errors, the
//! connection still answers PING afterwards, and the same pipeline sent in one write gives
//! byte-identical replies. A second generator sends protocol-violating frames and requires
//! an error reply rather than silence.

use crate::client::{Client, Reply};
use crate::driver::{cmd2j, j2cmd, CaseResult, Evidence, LoopCfg, Tier, Verdict};
use crate::gen::bs;
use crate::model::{Bytes, Cmd};
use crate::resp::{self, encode_cmd, Frame};
use crate::runner::Worker;
use crate::sut::ServerOpts;
use proptest::prelude::*;
use proptest::sample::select;
use serde_json::{json, Value};
use std::sync::Mutex;
use std::time::{Duration, Instant};

#[derive(Clone, Debug)]
pub struct Item {
    pub cmds: Vec<Cmd>,
    /// indices of commands in `cmds` whose reply must be an error
    pub must_err: Vec<usize>,
    pub class: &'static str,
}

#[derive(Clone, Debug)]
pub enum Seg {
    Whole,
    EveryByte,
    /// cut positions as 16-bit fractions of the stream length
    Cuts(Vec<u16>),
    /// one write per command
    PerCommand,
    /// cut inside every length header / CRLF (after each '$', '*' and '\r')
    InsideHeaders,
}

#[derive(Clone, Debug)]
pub struct Case {
    pub items: Vec<Item>,
    pub seg: Seg,
    pub pause_ms: u8,
}

fn hostile_arg() -> BoxedStrategy<Bytes> {
    prop_oneof![
        4 => select(vec![
            b"a\r\nb".to_vec(),
            b"\r\n+OK\r\n".to_vec(),
            b"\r\n$-1\r\n".to_vec(),
            b"\r\n*2\r\n$1\r\nx\r\n".to_vec(),
            b"\x00".to_vec(),
            b"\xff\xfe\x80".to_vec(),
            b"".to_vec(),
            b"-ERR fake\r\n".to_vec(),
            b":1\r\n".to_vec(),
        ]),
        1 => (any::<u8>(), select(vec![1000usize, 16384, 65536])).prop_map(|(b, n)| vec![b; n]),
        2 => proptest::collection::vec(any::<u8>(), 0..16),
    ]
    .boxed()
}

/// Deterministic data commands (no random outcomes, no clock-dependent replies).
fn valid_cmd() -> BoxedStrategy<Cmd> {
    let k = select(vec![bs("k"), bs("j"), bs("kk")]).boxed();
    let v = prop_oneof![3 => select(vec![bs("v"), bs("1"), bs("abc")]), 2 => hostile_arg()].boxed();
    let m = prop_oneof![3 => select(vec![bs("a"), bs("b")]), 1 => hostile_arg()].boxed();
    prop_oneof![
        4 => (k.clone(), v.clone()).prop_map(|(k, v)| vec![bs("SET"), k, v]),
        3 => k.clone().prop_map(|k| vec![bs("GET"), k]),
        2 => k.clone().prop_map(|k| vec![bs("INCR"), k]),
        2 => (k.clone(), v.clone()).prop_map(|(k, v)| vec![bs("APPEND"), k, v]),
        2 => k.clone().prop_map(|k| vec![bs("DEL"), k]),
        2 => k.clone().prop_map(|k| vec![bs("EXISTS"), k]),
        2 => k.clone().prop_map(|k| vec![bs("TYPE"), k]),
        2 => (k.clone(), k.clone()).prop_map(|(a, b)| vec![bs("MGET"), a, b]),
        3 => (k.clone(), m.clone()).prop_map(|(k, m)| vec![bs("RPUSH"), k, m]),
        2 => k.clone().prop_map(|k| vec![bs("LRANGE"), k, bs("0"), bs("-1")]),
        2 => k.clone().prop_map(|k| vec![bs("LPOP"), k]),
        3 => (k.clone(), m.clone()).prop_map(|(k, m)| vec![bs("SADD"), k, m]),
        2 => (k.clone(), m.clone()).prop_map(|(k, m)| vec![bs("SISMEMBER"), k, m]),
        3 => (k.clone(), m.clone(), v.clone()).prop_map(|(k, m, v)| vec![bs("HSET"), k, m, v]),
        2 => (k.clone(), m.clone()).prop_map(|(k, m)| vec![bs("HGET"), k, m]),
        3 => (k.clone(), m.clone()).prop_map(|(k, m)| vec![bs("ZADD"), k, bs("1.5"), m]),
        2 => k.clone().prop_map(|k| vec![bs("ZRANGE"), k, bs("0"), bs("-1"), bs("WITHSCORES")]),
        2 => (k.clone(), m.clone(), v.clone()).prop_map(|(k, m, v)| vec![bs("XADD"), k, bs("5-1"), m, v]),
        1 => k.clone().prop_map(|k| vec![bs("XLEN"), k]),
        2 => v.clone().prop_map(|v| vec![bs("ECHO"), v]),
        1 => Just(vec![bs("PING")]),
        1 => v.clone().prop_map(|v| vec![bs("PING"), v]),
        1 => Just(vec![bs("DBSIZE")]),
        1 => Just(vec![bs("KEYS"), bs("*")]),
        1 => Just(vec![bs("SELECT"), bs("0")]),
        1 => (k.clone(), v.clone()).prop_map(|(k, v)| vec![bs("PUBLISH"), k, v]),
    ]
    .boxed()
}

/// Commands that cannot be carried out: the reply must be an error.
fn impossible_cmd() -> BoxedStrategy<(Cmd, &'static str)> {
    let unknown = prop_oneof![
        select(vec![bs("NOSUCHCOMMAND"), bs(""), bs("GETT"), bs("\x00"), b"A\r\nB".to_vec(), b"\r\n+OK\r\n".to_vec(), b"\xff\xfe".to_vec(), vec![b'Z'; 5000], bs("get set"), bs("-ERR")]),
        hostile_arg(),
    ]
    .prop_filter_map("not a known command", |n| {
        let u = String::from_utf8_lossy(&n).trim().to_uppercase();
        if matches!(u.as_str(), "PING" | "QUIT" | "MULTI" | "EXEC" | "DISCARD") || u.len() == 3 || u.len() == 4 {
            None
        } else {
            Some(n)
        }
    });
    let arity = select(vec![
        vec!["GET"],
        vec!["GET", "a", "b"],
        vec!["SET", "k"],
        vec!["SET"],
        vec!["DEL"],
        vec!["INCRBY", "k"],
        vec!["LPUSH", "k"],
        vec!["LRANGE", "k", "0"],
        vec!["HSET", "k", "f"],
        vec!["ZADD", "k", "1"],
        vec!["ZADD", "k", "1", "a", "2"],
        vec!["XADD", "k", "*", "f"],
        vec!["EXPIRE", "k"],
        vec!["RENAME", "a"],
        vec!["ECHO"],
        vec!["ECHO", "a", "b"],
        vec!["SELECT"],
        vec!["MSET", "a"],
        vec!["STRLEN"],
        vec!["SISMEMBER", "k"],
        vec!["HGET", "k"],
        vec!["ZSCORE", "k"],
        vec!["PUBLISH", "ch"],
        vec!["TYPE"],
        vec!["XLEN"],
        vec!["PERSIST"],
        vec!["TTL", "a", "b"],
    ]);
    let wrongtype = select(vec![
        vec!["GET", "T:list"],
        vec!["INCR", "T:list"],
        vec!["APPEND", "T:hash", "x"],
        vec!["GETSET", "T:set", "x"],
        vec!["STRLEN", "T:zset"],
        vec!["LPUSH", "T:str", "x"],
        vec!["LRANGE", "T:str", "0", "-1"],
        vec!["LPOP", "T:hash"],
        vec!["SADD", "T:list", "x"],
        vec!["SMEMBERS", "T:str"],
        vec!["HSET", "T:str", "f", "v"],
        vec!["HGETALL", "T:list"],
        vec!["ZADD", "T:list", "1", "a"],
        vec!["ZRANGE", "T:str", "0", "-1"],
        vec!["ZSCORE", "T:hash", "a"],
        vec!["ZCARD", "T:set"],
        vec!["ZRANK", "T:str", "a"],
        vec!["ZINCRBY", "T:list", "1", "a"],
        vec!["XADD", "T:str", "9-9", "f", "v"],
        vec!["XLEN", "T:list"],
        vec!["XRANGE", "T:set", "-", "+"],
        vec!["BLPOP", "T:str", "0.01"],
        vec!["SETRANGE", "T:list", "0", "x"],
        vec!["GETRANGE", "T:hash", "0", "1"],
        vec!["HINCRBY", "T:zset", "f", "1"],
        vec!["SPOP", "T:str"],
        vec!["LSET", "T:set", "0", "x"],
    ]);
    let badarg = select(vec![
        vec!["INCRBY", "k", "abc"],
        vec!["DECRBY", "k", ""],
        vec!["LRANGE", "k", "a", "b"],
        vec!["EXPIRE", "k", "abc"],
        vec!["PEXPIRE", "k", "1.5"],
        vec!["SETEX", "k", "abc", "v"],
        vec!["SETEX", "k", "0", "v"],
        vec!["SET", "k", "v", "EX", "abc"],
        vec!["SET", "k", "v", "BOGUS"],
        vec!["SET", "k", "v", "NX", "XX"],
        vec!["ZADD", "k", "notafloat", "m"],
        vec!["ZADD", "k", "nan", "m"],
        vec!["ZINCRBY", "k", "x", "m"],
        vec!["HINCRBY", "k", "f", "abc"],
        vec!["SELECT", "abc"],
        vec!["SELECT", "99"],
        vec!["SELECT", "-1"],
        vec!["LINDEX", "k", "x"],
        vec!["SETRANGE", "k", "-1", "x"],
        vec!["GETRANGE", "k", "a", "1"],
        vec!["XADD", "k", "notanid", "f", "v"],
        vec!["XADD", "k", "0-0", "f", "v"],
        vec!["XRANGE", "k", "bad", "+"],
        vec!["ZRANGEBYSCORE", "k", "a", "b"],
        vec!["SRANDMEMBER", "k", "x"],
        vec!["SPOP", "k", "-1"],
        vec!["BLPOP", "k", "notanumber"],
        vec!["BLPOP", "k", "-1"],
        vec!["RENAME", "no:such:key", "x"],
        vec!["LSET", "no:such:key", "0", "v"],
        vec!["AUTH", "somepassword"],
        vec!["EXEC"],
        vec!["DISCARD"],
        vec!["EVALSHA", "ffffffffffffffffffffffffffffffffffffffff", "0"],
        vec!["EVAL", "this is not lua", "0"],
        vec!["EVAL", "return redis.call('NOSUCH')", "0"],
        vec!["XGROUP", "CREATE", "no:such:key", "g", "$"],
    ]);
    let to_cmd = |v: Vec<&'static str>| v.into_iter().map(|s| s.as_bytes().to_vec()).collect::<Cmd>();
    prop_oneof![
        3 => (unknown, proptest::collection::vec(hostile_arg(), 0..3)).prop_map(|(n, args)| {
            let mut c = vec![n];
            c.extend(args);
            (c, "unknown-command")
        }),
        3 => arity.prop_map(move |v| (to_cmd(v), "wrong-arity")),
        // errors built by other routes than the usual constructor, carrying request bytes: a
        // script returning an error table, a script raising with the argument as message
        2 => (select(vec![bs("return {err=ARGV[1]}"), bs("error(ARGV[1])"), bs("return redis.pcall('NOSUCH' .. ARGV[1])"), bs("return redis.call(ARGV[1])")]), hostile_arg()).prop_filter_map("a non-empty message", |(src, a)| if a.is_empty() { None } else { Some((vec![bs("EVAL"), src, bs("0"), a], "script-error-with-request-bytes")) }),
        4 => wrongtype.prop_map(move |v| (to_cmd(v), "wrong-type")),
        4 => badarg.prop_map(move |v| (to_cmd(v), "bad-argument")),
    ]
    .boxed()
}

fn item() -> BoxedStrategy<Item> {
    prop_oneof![
        10 => valid_cmd().prop_map(|c| Item { cmds: vec![c], must_err: vec![], class: "valid" }),
        8 => impossible_cmd().prop_map(|(c, class)| Item { cmds: vec![c], must_err: vec![0], class }),
        // a transaction block: +OK, +QUEUED x k, array of k
        3 => (proptest::collection::vec(prop_oneof![4 => valid_cmd().prop_map(|c| (c, false)), 1 => impossible_cmd().prop_filter_map("queued commands keep their arity", |(c, class)| if class == "wrong-type" || class == "bad-argument" { Some((c, true)) } else { None })], 0..6), any::<bool>()).prop_map(|(q, exec)| {
            let mut cmds = vec![vec![bs("MULTI")]];
            for (c, _) in &q {
                // EXEC/DISCARD/AUTH/SELECT inside would change the block structure
                let n = String::from_utf8_lossy(&c[0]).to_uppercase();
                if matches!(n.as_str(), "EXEC" | "DISCARD" | "AUTH" | "SELECT" | "BLPOP") {
                    continue;
                }
                cmds.push(c.clone());
            }
            cmds.push(vec![if exec { bs("EXEC") } else { bs("DISCARD") }]);
            Item { cmds, must_err: vec![], class: "transaction" }
        }),
        1 => select(vec![bs("UNSUBSCRIBE"), bs("PUNSUBSCRIBE")]).prop_map(|n| Item { cmds: vec![vec![n]], must_err: vec![], class: "unsubscribe-nothing" }),

    ]
    .boxed()
}

fn case() -> BoxedStrategy<Case> {
    let seg = prop_oneof![
        2 => Just(Seg::Whole),
        2 => Just(Seg::EveryByte),
        4 => proptest::collection::vec(any::<u16>(), 1..8).prop_map(Seg::Cuts),
        2 => Just(Seg::PerCommand),
        2 => Just(Seg::InsideHeaders),
    ];
    // replies far larger than a socket buffer: in one case out of eight
    let large = proptest::option::weighted(0.125, (select(vec![300_000usize, 1_500_000, 4_000_000]), any::<u8>(), any::<u16>()));
    // a pipeline far deeper than one read of the server can hold: short commands, hundreds to
    // thousands of them, in one case out of ten
    let deep = proptest::option::weighted(0.1, (select(vec![300usize, 1000, 5000]), select(vec![0u8, 1, 2, 3]), any::<u16>()));
    (proptest::collection::vec(item(), 1..40), seg, select(vec![0u8, 0, 1, 3]), large, deep)
        .prop_map(|(mut items, seg, pause_ms, large, deep)| {
            if let Some((n, kind, pos)) = deep {
                let one: Cmd = match kind {
                    0 => vec![bs("PING")],
                    1 => vec![bs("GET"), bs("T:str")],
                    2 => vec![bs("INCR"), bs("deep:n")],
                    _ => vec![bs("ECHO"), bs("x")],
                };
                let it = Item { cmds: vec![one; n], must_err: vec![], class: "deep-pipeline" };
                let at = (pos as usize * (items.len() + 1)) >> 16;
                items.insert(at, it);
            }
            if let Some((n, b, pos)) = large {
                let it = Item { cmds: vec![vec![bs("SET"), bs("kbig"), vec![b | 1; n]], vec![bs("GET"), bs("kbig")], vec![bs("GET"), bs("kbig")], vec![bs("DEL"), bs("kbig")]], must_err: vec![], class: "large-reply" };
                let at = (pos as usize * (items.len() + 1)) >> 16;
                items.insert(at, it);
            }
            Case { items, seg, pause_ms }
        })
        .boxed()
}

fn preamble() -> Vec<Cmd> {
    vec![
        crate::model::cmd(&["SET", "T:str", "s"]),
        crate::model::cmd(&["RPUSH", "T:list", "a"]),
        crate::model::cmd(&["SADD", "T:set", "a"]),
        crate::model::cmd(&["HSET", "T:hash", "f", "v"]),
        crate::model::cmd(&["ZADD", "T:zset", "1", "a"]),
    ]
}

struct Built {
    bytes: Vec<u8>,
    /// byte offsets where a command starts (for PerCommand segmentation)
    cmd_starts: Vec<usize>,
    /// expected frames: for each, Some(marker) if it must be that bulk, and whether it must be an error
    expect: Vec<(Option<Bytes>, bool, String)>,
}

fn build(c: &Case) -> Built {
    let mut bytes = Vec::new();
    let mut cmd_starts = Vec::new();
    let mut expect = Vec::new();
    for (i, it) in c.items.iter().enumerate() {
        for (j, cm) in it.cmds.iter().enumerate() {
            cmd_starts.push(bytes.len());
            bytes.extend_from_slice(&encode_cmd(cm));
            expect.push((None, it.must_err.contains(&j), crate::model::show_cmd(cm)));
        }
        let marker = format!("mk{:05}{:05}", i, (i * 7919 + 13) % 100000).into_bytes();
        cmd_starts.push(bytes.len());
        bytes.extend_from_slice(&encode_cmd(&[b"ECHO".to_vec(), marker.clone()]));
        expect.push((Some(marker), false, "ECHO marker".to_string()));
    }
    Built { bytes, cmd_starts, expect }
}

fn cut_points(b: &Built, seg: &Seg) -> Vec<usize> {
    let n = b.bytes.len();
    let mut cuts: Vec<usize> = match seg {
        Seg::Whole => vec![],
        Seg::EveryByte => {
            if n <= 2048 {
                (1..n).collect()
            } else {
                // one byte at a time for the first 2 KB, then the rest
                (1..2048).collect()
            }
        }
        Seg::Cuts(f) => f.iter().map(|x| ((*x as usize * n) >> 16).max(1)).collect(),
        Seg::PerCommand => b.cmd_starts.iter().cloned().filter(|x| *x > 0).collect(),
        Seg::InsideHeaders => {
            let mut v = Vec::new();
            for (i, c) in b.bytes.iter().enumerate() {
                if (*c == b'$' || *c == b'*' || *c == b'\r') && i + 1 < n && v.len() < 600 {
                    v.push(i + 1);
                }
            }
            v
        }
    };
    cuts.sort();
    cuts.dedup();
    cuts.retain(|x| *x > 0 && *x < n);
    cuts
}

/// Send `bytes` cut at `cuts`, collecting reply bytes; returns (received bytes, connection closed).
fn exchange(c: &mut Client, bytes: &[u8], cuts: &[usize], pause_ms: u8, expect_frames: usize, read_delay_ms: u64) -> (Vec<u8>, bool) {
    exchange_patient(c, bytes, cuts, pause_ms, expect_frames, read_delay_ms, 1500)
}

fn exchange_patient(c: &mut Client, bytes: &[u8], cuts: &[usize], pause_ms: u8, expect_frames: usize, read_delay_ms: u64, patience_ms: u64) -> (Vec<u8>, bool) {
    let _ = c.stream.set_nonblocking(true);
    let mut received = Vec::new();
    let mut closed = false;
    let mut prev = 0;
    let mut bounds = cuts.to_vec();
    bounds.push(bytes.len());
    let mut buf = [0u8; 65536];
    let mut drain = |received: &mut Vec<u8>, closed: &mut bool, c: &mut Client| loop {
        match std::io::Read::read(&mut c.stream, &mut buf) {
            Ok(0) => {
                *closed = true;
                break;
            }
            Ok(n) => received.extend_from_slice(&buf[..n]),
            Err(e) if e.kind() == std::io::ErrorKind::WouldBlock => break,
            Err(e) if e.kind() == std::io::ErrorKind::Interrupted => continue,
            Err(_) => {
                *closed = true;
                break;
            }
        }
    };
    for b in bounds {
        let mut off = prev;
        let deadline = Instant::now() + Duration::from_secs(10);
        while off < b && !closed && Instant::now() < deadline {
            match std::io::Write::write(&mut c.stream, &bytes[off..b]) {
                Ok(n) => off += n,
                Err(e) if e.kind() == std::io::ErrorKind::WouldBlock => {
                    // the server is not reading because we are not reading: read first
                    drain(&mut received, &mut closed, c);
                    std::thread::sleep(Duration::from_micros(200));
                }
                Err(_) => closed = true,
            }
        }
        prev = b;
        if pause_ms > 0 && cuts.len() <= 40 {
            std::thread::sleep(Duration::from_millis(pause_ms as u64));
        } else if !cuts.is_empty() {
            // give the server a chance to read this segment on its own
            std::thread::sleep(Duration::from_micros(30));
        }
        drain(&mut received, &mut closed, c);
    }
    // a slow reader: the server has to keep what it could not send and deliver it later
    if read_delay_ms > 0 {
        std::thread::sleep(Duration::from_millis(read_delay_ms));
    }
    // wait for the rest: until the expected number of frames decoded, silence for 1.5 s, or close
    let mut last_progress = Instant::now();
    loop {
        let before = received.len();
        drain(&mut received, &mut closed, c);
        if received.len() > before {
            last_progress = Instant::now();
        }
        let (frames, leftover, err) = resp::decode_all(&received);
        if err.is_some() || (frames.len() >= expect_frames && leftover == 0) || closed {
            break;
        }
        // silence bound: 1.5 s, plus 1.5 s per MB sent (the server ingests 8 KB per loop turn)
        if last_progress.elapsed() > Duration::from_millis(patience_ms + (bytes.len() as u64 * 1500) / 1_000_000) {
            break;
        }
        std::thread::sleep(Duration::from_micros(300));
    }
    // a little longer for surplus frames
    std::thread::sleep(Duration::from_millis(3));
    drain(&mut received, &mut closed, c);
    let _ = c.stream.set_nonblocking(false);
    (received, closed)
}

fn prepare(wk: &mut Worker) -> Result<Client, String> {
    let server = wk.server()?;
    let mut obs = crate::runner::reset_server(server)?;
    for p in preamble() {
        let _ = obs.cmd(&p);
    }
    server.client().map_err(|e| e.to_string())
}

fn judge(b: &Built, received: &[u8], closed: bool) -> Result<(), (String, String)> {
    let (frames, leftover, err) = resp::decode_all(received);
    if let Some(e) = err {
        let at = received.len() - leftover;
        return Err((
            format!("reply stream is not well-formed RESP after {} frames ({:?}) at byte {}: ...{}", frames.len(), e, at, resp::show_bytes(&received[at.saturating_sub(40)..(at + 60).min(received.len())])),
            "malformed-reply".into(),
        ));
    }
    // walk expected vs received
    for (i, (marker, must_err, what)) in b.expect.iter().enumerate() {
        let f = match frames.get(i) {
            Some(f) => f,
            None => {
                let sig = if closed { "connection-dropped" } else { "missing-reply" };
                return Err((
                    format!("{} frames received, {} expected; first unanswered request: {} (request #{}){}", frames.len(), b.expect.len(), what, i, if closed { "; the server closed the connection" } else { "; silence" }),
                    sig.into(),
                ));
            }
        };
        if let Some(m) = marker {
            if f != &Frame::Bulk(m.clone()) {
                // find where the marker actually is, to say whether a reply is missing or surplus
                let pos = frames.iter().position(|x| x == &Frame::Bulk(m.clone()));
                let prev_req = if i > 0 { b.expect[i - 1].2.clone() } else { String::new() };
                return Err((
                    format!("frame #{} should be the marker after '{}' but is {:?}; the marker is at frame {:?}: a request got {} reply frames", i, prev_req, f, pos, match pos { Some(p) if p > i => "too many", Some(_) => "too few", None => "an unknown number of" }),
                    match pos {
                        Some(p) if p > i => "surplus-reply".into(),
                        _ => "missing-reply".into(),
                    },
                ));
            }
        } else if *must_err && !f.is_error() {
            return Err((format!("request #{} {} cannot be carried out but was answered {:?} instead of an error", i, what, f), "no-error-for-impossible".into()));
        }
    }
    if frames.len() > b.expect.len() {
        return Err((format!("{} surplus frame(s) after the last marker: {:?}", frames.len() - b.expect.len(), &frames[b.expect.len()..]), "surplus-reply".into()));
    }
    if leftover > 0 {
        return Err((format!("{} bytes of an incomplete frame after the last reply", leftover), "truncated-reply".into()));
    }
    Ok(())
}

pub fn exec_case(wk: &mut Worker, c: &Case) -> CaseResult {
    let b = build(c);
    let cuts = cut_points(&b, &c.seg);
    let mut conn = match prepare(wk) {
        Ok(c) => c,
        Err(e) => {
            wk.server = None;
            return CaseResult::infra(e);
        }
    };
    let has_large = c.items.iter().any(|i| i.class == "large-reply");
    let read_delay = if has_large && c.pause_ms >= 1 { 400 } else { 0 };
    let (received, closed) = exchange(&mut conn, &b.bytes, &cuts, c.pause_ms, b.expect.len(), read_delay);
    let mut labels: Vec<String> = c.items.iter().map(|i| i.class.to_string()).collect();
    labels.sort();
    labels.dedup();
    let split_frames = !cuts.is_empty() && cuts.iter().any(|x| !b.cmd_starts.contains(x));
    if split_frames {
        labels.push("cut-inside-frame".into());
    }
    let hostile = c.items.iter().any(|i| i.cmds.iter().any(|cm| cm.iter().any(|a| a.windows(2).any(|w| w == b"\r\n") || a.contains(&0) || a.iter().any(|x| *x >= 0x80))));
    if hostile {
        labels.push("hostile-content".into());
    }
    if read_delay > 0 {
        labels.push("slow-reader-of-large-reply".into());
    }
    let nontrivial = c.items.len() >= 3 && c.items.iter().any(|i| !i.must_err.is_empty()) && (split_frames || hostile);
    let trace = json!({"items": c.items.len(), "bytes": b.bytes.len(), "segments": cuts.len() + 1, "seg": format!("{:?}", c.seg).chars().take(60).collect::<String>(), "first_requests": b.expect.iter().take(6).map(|e| e.2.chars().take(80).collect::<String>()).collect::<Vec<_>>(), "reply_head": resp::show_bytes(&received[..received.len().min(160)])});
    let mut res = CaseResult { verdict: Verdict::Pass, labels, nontrivial, excluded: vec![], trace: Some(trace) };
    let mut verdict = judge(&b, &received, closed);
    let (mut received, mut closed) = (received, closed);
    if matches!(&verdict, Err((_, sig)) if sig == "missing-reply" || sig == "truncated-reply") && !closed {
        // a silence verdict must be confirmed: same case once more on a fresh connection, with
        // four times the patience
        if let Ok(mut conn2) = prepare(wk) {
            let (r2, c2) = exchange_patient(&mut conn2, &b.bytes, &cuts, c.pause_ms, b.expect.len(), read_delay, 6000);
            let v2 = judge(&b, &r2, c2);
            if v2.is_ok() {
                res.labels.push("slow-but-answered".into());
            }
            verdict = v2;
            received = r2;
            closed = c2;
            conn = conn2;
        }
    }
    let _ = closed;
    if let Err((what, sig)) = verdict {
        if let Some(s) = wk.server.as_mut() {
            if !s.alive() {
                let ps = s.panic_signature().unwrap_or_default();
                res.verdict = Verdict::Fail { what: format!("{}; SERVER PROCESS DIED: {}", what, ps), sig: "server-died".into() };
                wk.server = None;
                return res;
            }
        }
        res.verdict = Verdict::Fail { what, sig };
        return res;
    }
    // the connection must still be usable
    match conn.cmd(&[b"PING".as_ref()]) {
        Reply::Frame(Frame::Simple(s)) if s == b"PONG" => {}
        r => {
            res.verdict = Verdict::Fail { what: format!("after the pipeline the connection does not answer PING: {:?}", r), sig: "connection-unusable".into() };
            return res;
        }
    }
    // segmentation independence: same pipeline in one write on a fresh state
    if !cuts.is_empty() {
        let mut conn2 = match prepare(wk) {
            Ok(c) => c,
            Err(e) => return CaseResult::infra(e),
        };
        let (received2, _) = exchange_patient(&mut conn2, &b.bytes, &[], 0, b.expect.len(), 0, 6000);
        if resp::decode_all(&received2).0.len() < b.expect.len() {
            // the one-write run is incomplete: nothing to compare (the one-write form is judged on
            // its own by the cases generated with Seg::Whole)
            res.labels.push("differential-skipped-incomplete".into());
        } else if received2 != received && {
            // frame by frame; replies whose order the server does not define (hash-map
            // iteration: KEYS, SMEMBERS, HGETALL, ...) compare as multisets, replies with a random
            // outcome (SPOP, SRANDMEMBER, RANDOMKEY) by shape only
            let (f1, _, _) = resp::decode_all(&received);
            let (f2, _, _) = resp::decode_all(&received2);
            f1.len() != f2.len() || f1.iter().zip(&f2).enumerate().any(|(i, (x, y))| !same_reply(b_expect_cmd(&b.expect, i), x, y))
        } {
            let (f1, _, _) = resp::decode_all(&received);
            let (f2, _, _) = resp::decode_all(&received2);
            let idx = f1.iter().zip(&f2).enumerate().position(|(i, (x, y))| !same_reply(b_expect_cmd(&b.expect, i), x, y)).unwrap_or(f1.len().min(f2.len()));
            res.verdict = Verdict::Fail {
                what: format!(
                    "replies differ between the segmented send and one write: frame #{} ({}) is {:?} vs {:?}",
                    idx,
                    b.expect.get(idx).map(|e| e.2.clone()).unwrap_or_default(),
                    f1.get(idx),
                    f2.get(idx)
                ),
                sig: "segmentation-dependent".into(),
            };
            return res;
        }
    }
    res
}

fn b_expect_cmd(expect: &[(Option<Bytes>, bool, String)], i: usize) -> &str {
    expect.get(i).map(|e| e.2.as_str()).unwrap_or("")
}

/// Equality of two replies to the same command in two runs of the same pipeline.
fn same_reply(shown_cmd: &str, a: &Frame, b: &Frame) -> bool {
    if a == b {
        return true;
    }
    // the command as shown: "NAME" "arg" ...
    let name = shown_cmd.trim_start_matches('"').split('"').next().unwrap_or("").to_ascii_uppercase();
    match name.as_str() {
        "KEYS" | "SMEMBERS" | "SUNION" | "SINTER" | "SDIFF" | "HKEYS" | "HVALS" | "SCAN" | "SSCAN" | "HSCAN" | "ZSCAN" => match (a, b) {
            (Frame::Array(x), Frame::Array(y)) => {
                let mut x: Vec<String> = x.iter().map(|f| format!("{:?}", f)).collect();
                let mut y: Vec<String> = y.iter().map(|f| format!("{:?}", f)).collect();
                x.sort();
                y.sort();
                x == y
            }
            _ => false,
        },
        "HGETALL" | "XRANGE" | "XREVRANGE" | "XREAD" => match (a, b) {
            // pairs / entry fields come out of hash maps: same bytes in some order
            (Frame::Array(_), Frame::Array(_)) => {
                let flat = |f: &Frame| {
                    let mut out = Vec::new();
                    fn walk(f: &Frame, out: &mut Vec<String>) {
                        match f {
                            Frame::Array(v) => v.iter().for_each(|e| walk(e, out)),
                            other => out.push(format!("{:?}", other)),
                        }
                    }
                    walk(f, &mut out);
                    out.sort();
                    out
                };
                flat(a) == flat(b)
            }
            _ => false,
        },
        "SPOP" | "SRANDMEMBER" | "RANDOMKEY" => std::mem::discriminant(a) == std::mem::discriminant(b),
        "EXEC" => match (a, b) {
            // a transaction's slots may hold unordered replies: slot by slot, equal or the same multiset
            (Frame::Array(x), Frame::Array(y)) => {
                x.len() == y.len()
                    && x.iter().zip(y).all(|(p, q)| {
                        p == q
                            || match (p, q) {
                                (Frame::Array(u), Frame::Array(v)) => {
                                    let mut u: Vec<String> = u.iter().map(|f| format!("{:?}", f)).collect();
                                    let mut v: Vec<String> = v.iter().map(|f| format!("{:?}", f)).collect();
                                    u.sort();
                                    v.sort();
                                    u == v
                                }
                                _ => false,
                            }
                    })
            }
            _ => false,
        },
        _ => false,
    }
}

fn case2j(c: &Case) -> Value {
    json!({
        "kind": "pipeline",
        "items": c.items.iter().map(|i| json!({"cmds": i.cmds.iter().map(|c| cmd2j(c)).collect::<Vec<_>>(), "must_err": i.must_err, "class": i.class})).collect::<Vec<_>>(),
        "seg": match &c.seg { Seg::Whole => json!("whole"), Seg::EveryByte => json!("every-byte"), Seg::PerCommand => json!("per-command"), Seg::InsideHeaders => json!("inside-headers"), Seg::Cuts(v) => json!(v) },
        "pause_ms": c.pause_ms,
    })
}

fn j2case(v: &Value) -> Case {
    let items = v
        .get("items")
        .and_then(|i| i.as_array())
        .map(|a| {
            a.iter()
                .map(|i| Item {
                    cmds: i.get("cmds").and_then(|c| c.as_array()).map(|c| c.iter().map(j2cmd).collect()).unwrap_or_default(),
                    must_err: i.get("must_err").and_then(|m| m.as_array()).map(|m| m.iter().filter_map(|x| x.as_u64().map(|x| x as usize)).collect()).unwrap_or_default(),
                    class: "replayed",
                })
                .collect()
        })
        .unwrap_or_default();
    let seg = match v.get("seg") {
        Some(Value::String(s)) => match s.as_str() {
            "every-byte" => Seg::EveryByte,
            "per-command" => Seg::PerCommand,
            "inside-headers" => Seg::InsideHeaders,
            _ => Seg::Whole,
        },
        Some(Value::Array(a)) => Seg::Cuts(a.iter().filter_map(|x| x.as_u64().map(|x| x as u16)).collect()),
        _ => Seg::Whole,
    };
    Case { items, seg, pause_ms: v.get("pause_ms").and_then(|p| p.as_u64()).unwrap_or(0) as u8 }
}

// ---------- protocol-violating frames ----------

fn violation_bytes() -> BoxedStrategy<(Vec<u8>, &'static str)> {
    let good = encode_cmd(&["SET", "k", "v"]);
    let v: Vec<(Vec<u8>, &'static str)> = vec![
        (b"X\r\n".to_vec(), "bad-type-byte"),
        (b"!5\r\nhello\r\n".to_vec(), "bad-type-byte"),
        (b"GET k\r\n".to_vec(), "inline-text"),
        (b"*abc\r\n".to_vec(), "non-numeric-array-length"),
        (b"*2\r\n$abc\r\nxx\r\n".to_vec(), "non-numeric-bulk-length"),
        (b"*-5\r\n".to_vec(), "negative-array-length"),
        (b"*1\r\n$-5\r\n".to_vec(), "negative-bulk-length"),
        (b"*1\r\n$3\r\nabcd\r\n".to_vec(), "missing-crlf-after-bulk"),
        (b"*1\r\n$3\r\nab\r\n\r\n".to_vec(), "missing-crlf-after-bulk"),
        (b"+OK\r\n".to_vec(), "non-array-top-level"),
        (b":5\r\n".to_vec(), "non-array-top-level"),
        (b"$4\r\nPING\r\n".to_vec(), "non-array-top-level"),
        (b"*1\r\n:5\r\n".to_vec(), "array-of-non-bulk"),
        (b"*2\r\n+GET\r\n+k\r\n".to_vec(), "array-of-non-bulk"),
        (b"*1\r\n*1\r\n$4\r\nPING\r\n".to_vec(), "array-of-non-bulk"),
        (b"*1\r\n$-1\r\n".to_vec(), "null-command-name"),
        (b":notanumber\r\n".to_vec(), "bad-integer"),
        (b"*1\r\n$99999999999999999999\r\n".to_vec(), "overflowing-length"),
    ];
    (select(v), any::<bool>(), 0usize..3)
        .prop_map(move |((bytes, class), prefix_good, n_good)| {
            let mut out = Vec::new();
            if prefix_good {
                for _ in 0..n_good {
                    out.extend_from_slice(&good);
                }
            }
            out.extend_from_slice(&bytes);
            (out, class)
        })
        .boxed()
}

fn exec_violation(wk: &mut Worker, bytes: &[u8], class: &str) -> CaseResult {
    let mut conn = match prepare(wk) {
        Ok(c) => c,
        Err(e) => {
            wk.server = None;
            return CaseResult::infra(e);
        }
    };
    let n_good = bytes.windows(5).filter(|w| w == b"$3\r\nS").count();
    let (received, closed) = exchange(&mut conn, bytes, &[], 0, n_good + 1, 0);
    let (frames, _, derr) = resp::decode_all(&received);
    let mut res = CaseResult { verdict: Verdict::Pass, labels: vec![format!("violation:{}", class)], nontrivial: true, excluded: vec![], trace: Some(json!({"sent": resp::show_bytes(bytes), "received": resp::show_bytes(&received[..received.len().min(200)]), "closed": closed})) };
    if derr.is_some() {
        res.verdict = Verdict::Fail { what: format!("reply to a protocol violation ({}) is itself malformed: {}", class, resp::show_bytes(&received)), sig: "malformed-reply".into() };
        return res;
    }
    let ok_prefix = frames.iter().take(n_good).all(|f| matches!(f, Frame::Simple(_)));
    let has_error = frames.iter().skip(n_good).any(|f| f.is_error());
    if !ok_prefix || frames.len() < n_good {
        res.verdict = Verdict::Fail { what: format!("the {} well-formed commands before the violation ({}) were not all answered: {:?}", n_good, class, frames), sig: "missing-reply".into() };
    } else if !has_error {
        // silence must be confirmed: control connection answers, and a re-run behaves the same
        let control_ok = wk.server.as_ref().and_then(|s| s.client().ok()).map_or(false, |mut c| matches!(c.cmd(&[b"PING".as_ref()]), Reply::Frame(Frame::Simple(_))));
        if control_ok {
            res.verdict = Verdict::Fail { what: format!("protocol violation ({}) {} was answered by {:?}{} instead of an error reply", class, resp::show_bytes(bytes), &frames[n_good.min(frames.len())..], if closed { " and a closed connection" } else { " and silence" }), sig: format!("silence-on-violation:{}", class) };
        } else {
            res.verdict = Verdict::Infra("control connection did not answer".into());
        }
    }
    if let Some(s) = wk.server.as_mut() {
        if !s.alive() {
            wk.server = None;
        }
    }
    res
}

pub const K_UNSUB: &str = "K05-unsubscribe-without-subscription-silent";

pub fn run(tier: Tier, seed: u64, replay: Option<Value>) -> i32 {
    let ev = Mutex::new(Evidence::new(
        "C05",
        tier,
        seed,
        "exploration",
        "pipelines of 1..40 items (valid deterministic commands of every family; unknown commands; wrong arity; wrong type; bad arguments; missing keys; MULTI..EXEC/DISCARD blocks with failing queued commands; arguments carrying CR/LF, fake reply fragments, NUL, invalid UTF-8, 64 KB payloads), every item followed by ECHO of a unique marker; the byte stream is sent whole, one byte at a time, cut at generated points, one write per command, or cut inside every header and CRLF, with optional pauses. Oracle: the independent decoder finds exactly the expected frames, markers in place, errors for impossible commands, PING still answered, and byte-identical replies when the same pipeline is sent in one write. Second generator: 18 kinds of protocol-violating frames (optionally after well-formed commands) must draw an error reply. Non-trivial = >= 3 items with >= 1 impossible command and (a cut inside a frame or hostile content); distinct by hash of the case",
    ));
    if let Some(r) = replay {
        let c = r.get("case").unwrap_or(&r);
        let mut wk = match Worker::new(ServerOpts::default()) {
            Ok(w) => w,
            Err(e) => {
                eprintln!("infrastructure: {}", e);
                return 2;
            }
        };
        let res = if c.get("kind").and_then(|k| k.as_str()) == Some("violation") {
            exec_violation(&mut wk, &crate::driver::j2b(c.get("bytes").unwrap_or(&Value::Null)), "replayed")
        } else {
            exec_case(&mut wk, &j2case(c))
        };
        crate::outln!("{}", serde_json::to_string_pretty(res.trace.as_ref().unwrap_or(&Value::Null)).unwrap());
        return match res.verdict {
            Verdict::Pass => {
                crate::outln!("replay: PASS");
                0
            }
            Verdict::Fail { what, sig } => {
                crate::outln!("replay: FAIL [{}] {}", sig, what);
                1
            }
            Verdict::Infra(m) => {
                crate::outln!("replay: inconclusive {}", m);
                2
            }
        };
    }
    // known finding probe: UNSUBSCRIBE with nothing subscribed gets no reply
    let findings = crate::findings::Findings::load();
    let mut unsub_excluded = false;
    if let Some(f) = findings.open_for("C05").into_iter().find(|f| f.id == K_UNSUB) {
        if let Ok(mut wk) = Worker::new(ServerOpts::default()) {
            let probe = Case { items: vec![Item { cmds: vec![vec![bs("UNSUBSCRIBE")]], must_err: vec![], class: "unsubscribe-nothing" }], seg: Seg::Whole, pause_ms: 0 };
            if exec_case(&mut wk, &probe).is_fail() {
                ev.lock().unwrap().known(&f.id, &f.what_fails);
                unsub_excluded = true;
            }
        }
    }
    let cfg = LoopCfg { cases: tier.pick(1800, 40000), workers: crate::workers(), max_shrink_execs: 300, max_violations: std::env::var("FVH_MAX_VIOL").ok().and_then(|s| s.parse().ok()).unwrap_or(12) };
    let excluded_count = std::sync::atomic::AtomicU64::new(0);
    crate::driver::run_cases(
        &ev,
        &cfg,
        case,
        |_| Worker::new(ServerOpts::default()),
        |wk, c: &Case| {
            if unsub_excluded && c.items.iter().any(|i| i.class == "unsubscribe-nothing") {
                let mut c2 = c.clone();
                let before = c2.items.len();
                c2.items.retain(|i| i.class != "unsubscribe-nothing");
                excluded_count.fetch_add((before - c2.items.len()) as u64, std::sync::atomic::Ordering::Relaxed);
                if c2.items.is_empty() {
                    return CaseResult::pass();
                }
                return exec_case(wk, &c2);
            }
            exec_case(wk, c)
        },
        case2j,
    );
    if unsub_excluded {
        ev.lock().unwrap().excluded.insert(K_UNSUB.to_string(), excluded_count.load(std::sync::atomic::Ordering::Relaxed));
    }
    let cfg2 = LoopCfg { cases: tier.pick(400, 6000), workers: crate::workers(), max_shrink_execs: 20, max_violations: 40 };
    crate::driver::run_cases(&ev, &cfg2, violation_bytes, |_| Worker::new(ServerOpts::default()), |wk, (b, class): &(Vec<u8>, &'static str)| exec_violation(wk, b, class), |(b, class)| json!({"kind": "violation", "class": class, "bytes": crate::driver::b2j(b)}));
    let e = ev.lock().unwrap();
    let _ = e.write();
    e.exit_code()
}
