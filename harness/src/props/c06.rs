//! C06 — no client input can crash, hang or wedge the server.
//!
//! A. boundary enumeration over the socket: every command name the server dispatches (taken
//!    from the source at check time) x argument count x argument position x numeric boundary
//!    pool x target key of every type and size, sent in batches on throw-away connections,
//!    each batch followed by the oracle on a fresh connection; a failing batch is bisected
//!    to the single request on a fresh server.
//! B. generated hostile byte streams (absurd declared lengths, deep nesting, truncation,
//!    byte-at-a-time, floods of tiny commands, non-arrays, inline text, garbage).
//! Oracle after every input: process alive, a fresh connection gets PONG within the liveness
//! bound, and the sentinel keys of all six types in database 15 are intact.

use crate::client::{Client, Reply};
use crate::driver::{cmd2j, hash_debug, j2cmd, seeded_runner, Evidence, Tier};
use crate::gen::bs;
use crate::model::{Bytes, Cmd};
use crate::resp::{encode_cmd, Frame};
use crate::sut::{Server, ServerOpts};
use proptest::prelude::*;
use proptest::strategy::ValueTree;
use serde_json::{json, Value};
use std::collections::BTreeSet;
use std::sync::Mutex;
use std::time::{Duration, Instant};

/// Commands whose documented effect is to stop serving, detach the connection, or rewire the
/// process: not part of "must keep serving" (only sent by dedicated probes, if at all).
const STOPPERS: &[&str] = &["SHUTDOWN", "SLEEP", "DEBUG", "REPLICAOF", "SLAVEOF", "CLIENT", "QUIT", "SYNC", "PSYNC", "MONITOR", "BGREWRITEAOF"];
/// Commands that may legitimately remove the sentinel.
const SENTINEL_AFFECTING: &[&str] = &["FLUSHALL", "FLUSHDB", "SELECT", "EVAL", "EVALSHA", "SCRIPT", "MULTI", "EXEC"];

fn static_commands() -> Vec<&'static str> {
    vec![
        "PING", "ECHO", "SET", "GET", "INCR", "DECR", "INCRBY", "DECRBY", "DEL", "EXISTS", "EXPIRE", "TTL", "SELECT", "FLUSHDB", "FLUSHALL", "DBSIZE", "SETNX", "SETEX", "PSETEX", "CONFIG", "MGET", "MSET", "GETSET",
        "APPEND", "STRLEN", "GETRANGE", "SETRANGE", "TYPE", "RENAME", "RENAMENX", "RANDOMKEY", "BLPOP", "BRPOP", "KEYS", "PEXPIRE", "PTTL", "PERSIST", "LPUSH", "RPUSH", "LPOP", "RPOP", "LLEN", "LRANGE", "LINDEX",
        "LSET", "LTRIM", "LREM", "SADD", "SREM", "SMEMBERS", "SISMEMBER", "SCARD", "SUNION", "SINTER", "SDIFF", "SRANDMEMBER", "SPOP", "HSET", "HGET", "HMSET", "HMGET", "HGETALL", "HDEL", "HLEN", "HEXISTS", "HKEYS",
        "HVALS", "HINCRBY", "ZADD", "ZREM", "ZSCORE", "ZCARD", "ZRANK", "ZREVRANK", "ZRANGE", "ZREVRANGE", "ZRANGEBYSCORE", "ZREVRANGEBYSCORE", "ZCOUNT", "ZINCRBY", "ZPOPMIN", "ZPOPMAX", "XADD", "XRANGE", "XREVRANGE",
        "XLEN", "XREAD", "XTRIM", "XDEL", "XGROUP", "XREADGROUP", "XACK", "XCLAIM", "XPENDING", "XINFO", "SAVE", "BGSAVE", "LASTSAVE", "SCAN", "HSCAN", "SSCAN", "ZSCAN", "INFO", "SLOWLOG", "MEMORY", "AUTH", "EVAL",
        "EVALSHA", "COMMAND", "SCRIPT", "MULTI", "EXEC", "DISCARD", "WATCH", "UNWATCH", "PUBLISH", "SUBSCRIBE", "UNSUBSCRIBE", "PSUBSCRIBE", "PUNSUBSCRIBE", "REPLCONF",
    ]
}

/// Command names found as string literals in the match arms of the dispatching sources.
pub fn commands_from_source() -> (Vec<String>, usize) {
    let mut set: BTreeSet<String> = static_commands().iter().map(|s| s.to_string()).collect();
    let n_static = set.len();
    for f in ["/repo/src/network/server.rs", "/repo/src/storage/commands/executor.rs"] {
        if let Ok(src) = std::fs::read_to_string(f) {
            for line in src.lines() {
                let t = line.trim_start();
                if !t.starts_with('"') || !t.contains("=>") {
                    continue;
                }
                let arm = &t[..t.find("=>").unwrap()];
                for part in arm.split('|') {
                    let p = part.trim();
                    if p.len() >= 4 && p.starts_with('"') && p.ends_with('"') {
                        let name = &p[1..p.len() - 1];
                        if name.len() >= 2 && name.len() <= 20 && name.bytes().all(|c| c.is_ascii_uppercase()) {
                            set.insert(name.to_string());
                        }
                    }
                }
            }
        }
    }
    let from_source = set.len() - n_static;
    (set.into_iter().filter(|c| !STOPPERS.contains(&c.as_str())).collect(), from_source)
}

pub fn numeric_pool() -> Vec<Bytes> {
    [
        "0", "1", "-1", "2", "-2", "100", "-100", "65535", "65536", "1048576", "-1048576", "1099511627776", "-1099511627776", "9223372036854775807", "-9223372036854775807", "-9223372036854775808", "9223372036854775808",
        "-9223372036854775809", "18446744073709551615", "18446744073709551616", "100000000000000000000", "1000000000000000000000000000000", "0.5", "-0.5", "1e308", "-1e308", "1e-300", "1e30", "1e400", "inf", "-inf", "+inf",
        "nan", "", "abc", "-", "+", "1-1", "0-0", "18446744073709551615-18446744073709551615", "1-\u{80}", "*", "$", ">",
    ]
    .iter()
    .map(|s| s.as_bytes().to_vec())
    .chain(vec![b"\xff\xfe".to_vec(), b"1-\x80".to_vec(), b"\x00".to_vec()])
    .collect()
}

const KEY_STATES: &[&str] = &["absent", "str", "int", "list1", "list100", "set1", "set100", "hash1", "hash100", "zset1", "zset100", "stream1", "stream100"];

fn key_name(state: &str) -> Bytes {
    format!("t:{}", state).into_bytes()
}

fn seed_keys(c: &mut Client) -> Result<(), String> {
    let mut cmds: Vec<Cmd> = vec![crate::model::cmd(&["SELECT", "0"]), crate::model::cmd(&["FLUSHDB"])];
    cmds.push(vec![bs("SET"), key_name("str"), bs("hello")]);
    cmds.push(vec![bs("SET"), key_name("int"), bs("10")]);
    for (st, n) in [("1", 1usize), ("100", 100)] {
        let mut l = vec![bs("RPUSH"), key_name(&format!("list{}", st))];
        let mut s = vec![bs("SADD"), key_name(&format!("set{}", st))];
        let mut h = vec![bs("HSET"), key_name(&format!("hash{}", st))];
        let mut z = vec![bs("ZADD"), key_name(&format!("zset{}", st))];
        for i in 0..n {
            l.push(format!("e{}", i).into_bytes());
            s.push(format!("m{}", i).into_bytes());
            h.push(format!("f{}", i).into_bytes());
            h.push(format!("{}", i).into_bytes());
            z.push(format!("{}", i).into_bytes());
            z.push(format!("m{}", i).into_bytes());
        }
        cmds.push(l);
        cmds.push(s);
        cmds.push(h);
        cmds.push(z);
        for i in 0..n {
            cmds.push(vec![bs("XADD"), key_name(&format!("stream{}", st)), format!("{}-1", i + 1).into_bytes(), bs("f"), bs("v")]);
        }
        cmds.push(vec![bs("XGROUP"), bs("CREATE"), key_name(&format!("stream{}", st)), bs("g"), bs("0")]);
    }
    for cm in cmds {
        match c.cmd(&cm) {
            Reply::Frame(f) if !f.is_error() => {}
            r => return Err(format!("seeding {} -> {:?}", crate::model::show_cmd(&cm), r)),
        }
    }
    Ok(())
}

fn seed_sentinel(c: &mut Client) -> Result<(), String> {
    for cm in [
        vec!["SELECT", "15"],
        vec!["FLUSHDB"],
        vec!["SET", "sentinel:str", "intact"],
        vec!["RPUSH", "sentinel:list", "a", "b", "c"],
        vec!["SADD", "sentinel:set", "a"],
        vec!["HSET", "sentinel:hash", "f", "v"],
        vec!["ZADD", "sentinel:zset", "1.5", "a"],
        vec!["XADD", "sentinel:stream", "7-7", "f", "v"],
        vec!["SELECT", "0"],
    ] {
        match c.cmd(&cm) {
            Reply::Frame(f) if !f.is_error() => {}
            r => return Err(format!("seeding sentinel {:?} -> {:?}", cm, r)),
        }
    }
    Ok(())
}

#[derive(Debug, Clone, PartialEq)]
pub enum Health {
    Ok,
    Died(String),
    Wedged(String),
    DataLost(String),
}

/// The oracle. `check_sentinel` is false after inputs that may legitimately flush.
pub fn health(server: &mut Server, check_sentinel: bool) -> Health {
    health_within(server, check_sentinel, Duration::from_secs(5))
}

pub fn health_within(server: &mut Server, check_sentinel: bool, max_wait: Duration) -> Health {
    if !server.alive() {
        std::thread::sleep(Duration::from_millis(30));
        return Health::Died(format!("{} | {}", server.exit_status().unwrap_or_default(), server.panic_signature().unwrap_or_else(|| "no panic message".into())));
    }
    let deadline = Instant::now() + max_wait;
    let mut last = String::new();
    while Instant::now() < deadline {
        match server.raw_client() {
            Ok(mut c) => {
                c.default_timeout = Duration::from_millis(2500);
                match c.cmd(&[b"PING".as_ref()]) {
                    Reply::Frame(Frame::Simple(s)) if s == b"PONG" => {
                        if !check_sentinel {
                            return Health::Ok;
                        }
                        let checks: Vec<(Vec<&str>, Frame)> = vec![
                            (vec!["SELECT", "15"], Frame::ok()),
                            (vec!["GET", "sentinel:str"], Frame::bulk("intact")),
                            (vec!["LRANGE", "sentinel:list", "0", "-1"], Frame::Array(vec![Frame::bulk("a"), Frame::bulk("b"), Frame::bulk("c")])),
                            (vec!["SISMEMBER", "sentinel:set", "a"], Frame::Int(1)),
                            (vec!["HGET", "sentinel:hash", "f"], Frame::bulk("v")),
                            (vec!["ZSCORE", "sentinel:zset", "a"], Frame::bulk("1.5")),
                            (vec!["XLEN", "sentinel:stream"], Frame::Int(1)),
                            (vec!["DBSIZE"], Frame::Int(6)),
                        ];
                        for (cm, want) in checks {
                            match c.cmd(&cm) {
                                Reply::Frame(f) if f == want => {}
                                r => return Health::DataLost(format!("{:?} -> {:?}, expected {:?}", cm, r, want)),
                            }
                        }
                        return Health::Ok;
                    }
                    r => last = format!("PING -> {:?}", r),
                }
            }
            Err(e) => last = format!("connect: {}", e),
        }
        if !server.alive() {
            std::thread::sleep(Duration::from_millis(30));
            return Health::Died(format!("{} | {}", server.exit_status().unwrap_or_default(), server.panic_signature().unwrap_or_else(|| "no panic message".into())));
        }
        std::thread::sleep(Duration::from_millis(100));
    }
    Health::Wedged(last)
}

/// Send raw bytes on a throw-away connection, reading whatever comes back for a short while.
fn fire(server: &Server, bytes: &[u8], linger: Duration) {
    if let Ok(mut c) = server.raw_client() {
        let _ = c.stream.set_nonblocking(true);
        let mut off = 0;
        let deadline = Instant::now() + Duration::from_secs(8);
        let mut buf = [0u8; 65536];
        while off < bytes.len() && Instant::now() < deadline {
            match std::io::Write::write(&mut c.stream, &bytes[off..]) {
                Ok(n) => off += n,
                Err(e) if e.kind() == std::io::ErrorKind::WouldBlock => {
                    while let Ok(n) = std::io::Read::read(&mut c.stream, &mut buf) {
                        if n == 0 {
                            return;
                        }
                    }
                    std::thread::sleep(Duration::from_micros(200));
                }
                Err(_) => break,
            }
        }
        let end = Instant::now() + linger;
        while Instant::now() < end {
            match std::io::Read::read(&mut c.stream, &mut buf) {
                Ok(0) => break,
                Ok(_) => {}
                Err(e) if e.kind() == std::io::ErrorKind::WouldBlock => std::thread::sleep(Duration::from_micros(300)),
                Err(_) => break,
            }
        }
        c.close();
    }
}

struct Sut {
    server: Server,
}

impl Sut {
    fn fresh() -> Result<Sut, String> {
        let server = Server::start(ServerOpts::default())?;
        let mut c = server.client().map_err(|e| e.to_string())?;
        seed_keys(&mut c)?;
        seed_sentinel(&mut c)?;
        Ok(Sut { server })
    }
    fn reseed(&mut self) -> Result<(), String> {
        let mut c = self.server.client().map_err(|e| e.to_string())?;
        seed_keys(&mut c)?;
        seed_sentinel(&mut c)
    }
}

fn affects_sentinel(c: &Cmd) -> bool {
    let n = String::from_utf8_lossy(&c[0]).to_uppercase();
    SENTINEL_AFFECTING.contains(&n.trim())
}

/// Enumerate boundary requests. `stride`/`offset` subsample the enumeration for the quick tier.
pub fn enumerate(commands: &[String], stride: usize, offset: usize) -> Vec<Cmd> {
    let pool = numeric_pool();
    let mut out = Vec::new();
    let mut idx = 0usize;
    let fillers: [&[u8]; 5] = [b"1", b"a", b"0", b"2", b"f"];
    for name in commands {
        for nargs in 0..=5usize {
            if nargs == 0 {
                idx += 1;
                if idx % stride == offset % stride {
                    out.push(vec![name.as_bytes().to_vec()]);
                }
                continue;
            }
            // first argument: a key of every state, or a pool value
            for pos in 0..nargs {
                for pv in &pool {
                    for (ki, ks) in KEY_STATES.iter().enumerate() {
                        // positions other than the fuzzed one: key first, benign fillers after
                        idx += 1;
                        if idx % stride != offset % stride {
                            continue;
                        }
                        let mut c: Cmd = vec![name.as_bytes().to_vec()];
                        for a in 0..nargs {
                            if a == pos {
                                c.push(pv.clone());
                            } else if a == 0 {
                                c.push(key_name(ks));
                            } else {
                                c.push(fillers[(a + ki) % fillers.len()].to_vec());
                            }
                        }
                        out.push(c);
                    }
                }
            }
        }
    }
    out
}

/// Sub-command aware extras: forms the generic enumeration cannot guess.
pub fn extras() -> Vec<Cmd> {
    let pool = numeric_pool();
    let mut out: Vec<Cmd> = Vec::new();
    let k = |s: &str| key_name(s);
    for pv in &pool {
        for ks in ["absent", "str", "list100", "set100", "hash100", "zset100", "stream100"] {
            out.push(vec![bs("SET"), k(ks), bs("v"), bs("EX"), pv.clone()]);
            out.push(vec![bs("SET"), k(ks), bs("v"), bs("PX"), pv.clone()]);
            out.push(vec![bs("SET"), k(ks), bs("v"), bs("NX"), bs("PX"), pv.clone()]);
            out.push(vec![bs("XRANGE"), k(ks), bs("-"), bs("+"), bs("COUNT"), pv.clone()]);
            out.push(vec![bs("XREVRANGE"), k(ks), bs("+"), bs("-"), bs("COUNT"), pv.clone()]);
            out.push(vec![bs("XRANGE"), k(ks), pv.clone(), bs("+")]);
            out.push(vec![bs("XRANGE"), k(ks), bs("-"), pv.clone()]);
            out.push(vec![bs("XREAD"), bs("COUNT"), pv.clone(), bs("STREAMS"), k(ks), bs("0")]);
            out.push(vec![bs("XREAD"), bs("STREAMS"), k(ks), pv.clone()]);
            out.push(vec![bs("XREAD"), bs("BLOCK"), pv.clone(), bs("STREAMS"), k(ks), bs("$")]);
            out.push(vec![bs("XTRIM"), k(ks), bs("MAXLEN"), pv.clone()]);
            out.push(vec![bs("XTRIM"), k(ks), bs("MAXLEN"), bs("~"), pv.clone()]);
            out.push(vec![bs("XADD"), k(ks), pv.clone(), bs("f"), bs("v")]);
            out.push(vec![bs("XDEL"), k(ks), pv.clone()]);
            out.push(vec![bs("XGROUP"), bs("CREATE"), k(ks), bs("g2"), pv.clone()]);
            out.push(vec![bs("XGROUP"), bs("SETID"), k(ks), bs("g"), pv.clone()]);
            out.push(vec![bs("XREADGROUP"), bs("GROUP"), bs("g"), bs("c"), bs("COUNT"), pv.clone(), bs("STREAMS"), k(ks), bs(">")]);
            out.push(vec![bs("XREADGROUP"), bs("GROUP"), bs("g"), bs("c"), bs("STREAMS"), k(ks), pv.clone()]);
            out.push(vec![bs("XACK"), k(ks), bs("g"), pv.clone()]);
            out.push(vec![bs("XCLAIM"), k(ks), bs("g"), bs("c"), pv.clone(), bs("1-1")]);
            out.push(vec![bs("XCLAIM"), k(ks), bs("g"), bs("c"), bs("0"), pv.clone()]);
            out.push(vec![bs("XPENDING"), k(ks), bs("g"), bs("-"), bs("+"), pv.clone()]);
            out.push(vec![bs("XPENDING"), k(ks), bs("g"), pv.clone(), bs("+"), bs("10")]);
            out.push(vec![bs("SCAN"), pv.clone()]);
            out.push(vec![bs("SCAN"), bs("0"), bs("COUNT"), pv.clone()]);
            out.push(vec![bs("SCAN"), bs("0"), bs("MATCH"), pv.clone()]);
            out.push(vec![bs("HSCAN"), k(ks), pv.clone()]);
            out.push(vec![bs("HSCAN"), k(ks), bs("0"), bs("COUNT"), pv.clone()]);
            out.push(vec![bs("SSCAN"), k(ks), bs("0"), bs("COUNT"), pv.clone()]);
            out.push(vec![bs("ZSCAN"), k(ks), bs("0"), bs("COUNT"), pv.clone()]);
            out.push(vec![bs("ZSCAN"), k(ks), pv.clone(), bs("COUNT"), bs("5")]);
            out.push(vec![bs("BLPOP"), k(ks), bs("t:absent"), pv.clone()]);
            out.push(vec![bs("BRPOP"), k(ks), pv.clone()]);
            out.push(vec![bs("ZRANGE"), k(ks), bs("0"), pv.clone(), bs("WITHSCORES")]);
            out.push(vec![bs("ZRANGEBYSCORE"), k(ks), pv.clone(), bs("+inf"), bs("WITHSCORES")]);
            out.push(vec![bs("ZADD"), k(ks), pv.clone(), bs("m"), pv.clone(), bs("n")]);
            out.push(vec![bs("HMSET"), k(ks), pv.clone(), pv.clone()]);
            out.push(vec![bs("MSET"), pv.clone(), pv.clone()]);
            out.push(vec![bs("SLOWLOG"), bs("GET"), pv.clone()]);
            out.push(vec![bs("CONFIG"), bs("SET"), bs("slowlog-max-len"), pv.clone()]);
            out.push(vec![bs("CONFIG"), bs("SET"), bs("slowlog-log-slower-than"), pv.clone()]);
            out.push(vec![bs("CONFIG"), bs("GET"), pv.clone()]);
            out.push(vec![bs("MEMORY"), bs("USAGE"), k(ks), bs("SAMPLES"), pv.clone()]);
            out.push(vec![bs("MEMORY"), bs("USAGE"), pv.clone()]);
            out.push(vec![bs("EVAL"), bs("return 1"), pv.clone()]);
            out.push(vec![bs("EVAL"), bs("return 1"), pv.clone(), k(ks)]);
            out.push(vec![bs("EVAL"), bs("return redis.call('LRANGE', KEYS[1], 0, ARGV[1])"), bs("1"), k(ks), pv.clone()]);
            out.push(vec![bs("EVAL"), bs("return redis.call(ARGV[1], KEYS[1], ARGV[2])"), bs("1"), k(ks), bs("SRANDMEMBER"), pv.clone()]);
            out.push(vec![bs("EVAL"), bs("return redis.call(ARGV[1], KEYS[1], ARGV[2], 'x')"), bs("1"), k(ks), bs("SETRANGE"), pv.clone()]);
            out.push(vec![bs("EVAL"), bs("return redis.call(ARGV[1], KEYS[1], 0, ARGV[2])"), bs("1"), k(ks), bs("GETRANGE"), pv.clone()]);
            out.push(vec![bs("EVAL"), bs("return redis.call(ARGV[1], KEYS[1], ARGV[2])"), bs("1"), k(ks), bs("EXPIRE"), pv.clone()]);
            out.push(vec![bs("EVAL"), bs("return redis.call(ARGV[1], KEYS[1], ARGV[2], 'm')"), bs("1"), k(ks), bs("ZADD"), pv.clone()]);
            out.push(vec![bs("EVAL"), bs("return redis.call(ARGV[1], KEYS[1], ARGV[2], 'f', 'v')"), bs("1"), k(ks), bs("XADD"), pv.clone()]);
            out.push(vec![bs("EVAL"), bs("return redis.call(ARGV[1], KEYS[1], ARGV[2])"), bs("1"), k(ks), bs("SPOP"), pv.clone()]);
            out.push(vec![bs("EVAL"), bs("return redis.call(ARGV[1], KEYS[1], ARGV[2], 'x')"), bs("1"), k(ks), bs("LREM"), pv.clone()]);
            out.push(vec![bs("EVAL"), bs("return redis.call(ARGV[1], KEYS[1], 'f', ARGV[2])"), bs("1"), k(ks), bs("HINCRBY"), pv.clone()]);
            out.push(vec![bs("EVALSHA"), pv.clone(), pv.clone()]);
            out.push(vec![bs("SCRIPT"), bs("EXISTS"), pv.clone()]);
            out.push(vec![bs("SCRIPT"), bs("LOAD"), pv.clone()]);
            out.push(vec![bs("INFO"), pv.clone()]);
            out.push(vec![bs("COMMAND"), bs("INFO"), pv.clone()]);
            out.push(vec![bs("REPLCONF"), bs("ACK"), pv.clone()]);
            out.push(vec![bs("REPLCONF"), bs("listening-port"), pv.clone()]);
            out.push(vec![bs("LPOP"), k(ks), pv.clone()]);
            out.push(vec![bs("SUBSCRIBE"), pv.clone()]);
            out.push(vec![bs("PSUBSCRIBE"), pv.clone()]);
        }
    }
    out
}


/// Hostile Lua: unbounded loops, recursion, memory and CPU bombs. A script may run up to the
/// server's script time limit, so these get a longer liveness bound.
pub fn lua_hostile() -> Vec<&'static str> {
    vec![
        "while true do end",
        "local t = {} for i=1,100000000 do t[i]=i end return 1",
        "return string.rep('x', 1000000000)",
        "local function f() return f() end return f()",
        "local function f() return 1 + f() end return f()",
        "return redis.call('EVAL', 'return 1', 0)",
        "error({})",
        "return {1,{2,{3,{4,{5}}}}}",
        "return setmetatable({}, {__index = function() error('x') end})",
        "return string.format('%99999999d', 1)",
        "return tostring(nil) .. string.rep('a', -1)",
        "return redis.call('SET')",
        "return redis.call()",
        "return redis.call({})",
        "return unpack({}, 1, 10000000)",
        "return select('#', unpack({}, 1, 1000000))",
        "return ('x'):rep(2^31)",
        "local s = '' for i = 1, 30 do s = s .. s .. 'x' end return #s",
        "return loadstring('return 1')()",
        "return coroutine.wrap(function() coroutine.yield(1) end)()",
        "return string.find(string.rep('a', 100000), string.rep('a?', 100000) .. string.rep('a', 100000))",
    ]
}

fn batch_bytes(batch: &[Cmd]) -> Vec<u8> {
    let mut b = Vec::new();
    for c in batch {
        b.extend_from_slice(&encode_cmd(c));
    }
    b
}

/// Run one batch; on failure bisect to the culprit on a fresh server. Returns violations.
fn run_batch(sut: &mut Sut, batch: &[Cmd], ev: &Mutex<Evidence>) -> Result<(), String> {
    let touches_sentinel = batch.iter().any(affects_sentinel);
    // each request on the same throw-away connection; blocking commands simply leave it blocked
    fire(&sut.server, &batch_bytes(batch), Duration::from_millis(if batch.len() > 1 { 40 } else { 15 }));
    let h = health(&mut sut.server, !touches_sentinel);
    if h == Health::Ok {
        if touches_sentinel {
            sut.reseed()?;
        }
        return Ok(());
    }
    // bisect: each request alone on a fresh server
    let mut found = false;
    *sut = Sut::fresh()?;
    for c in batch {
        fire(&sut.server, &encode_cmd(c), Duration::from_millis(30));
        let hc = health(&mut sut.server, !affects_sentinel(c));
        if hc != Health::Ok {
            // confirm on another fresh server
            *sut = Sut::fresh()?;
            fire(&sut.server, &encode_cmd(c), Duration::from_millis(30));
            let hc2 = health(&mut sut.server, !affects_sentinel(c));
            if hc2 != Health::Ok {
                found = true;
                let name = String::from_utf8_lossy(&c[0]).to_uppercase();
                let sig = match &hc2 {
                    Health::Died(_) => format!("{}:server-died", name),
                    Health::Wedged(_) => format!("{}:server-wedged", name),
                    _ => format!("{}:data-lost", name),
                };
                ev.lock().unwrap().violation(&format!("{} -> {:?}", crate::model::show_cmd(c), hc2), &sig, json!({"kind": "request", "cmd": cmd2j(c)}));
            }
            *sut = Sut::fresh()?;
        } else if affects_sentinel(c) {
            sut.reseed()?;
        }
    }
    if !found {
        // only the sequence reproduces (or nothing does): re-run the whole batch once
        *sut = Sut::fresh()?;
        fire(&sut.server, &batch_bytes(batch), Duration::from_millis(40));
        let h2 = health(&mut sut.server, !touches_sentinel);
        if h2 != Health::Ok {
            ev.lock().unwrap().violation(&format!("batch of {} requests (first: {}) -> {:?}", batch.len(), crate::model::show_cmd(&batch[0]), h2), "batch", json!({"kind": "batch", "cmds": batch.iter().map(|c| cmd2j(c)).collect::<Vec<_>>()}));
            *sut = Sut::fresh()?;
        } else {
            ev.lock().unwrap().infra.push(format!("batch failed once ({:?}) but did not reproduce", h));
        }
    }
    Ok(())
}

// ---------- B: hostile byte streams ----------

fn hostile_stream() -> BoxedStrategy<(Vec<u8>, &'static str)> {
    let len = proptest::sample::select(vec!["-2", "2147483648", "1099511627776", "9223372036854775807", "18446744073709551616", "99999999999999999999", "abc", "", "-", "1e3", "0x10", " 5"]);
    let good = encode_cmd(&["SET", "t:absent2", "v"]);
    prop_oneof![
        4 => (proptest::sample::select(vec!['*', '$', '%', '~']), len.clone()).prop_map(|(t, l)| (format!("{}{}\r\n", t, l).into_bytes(), "absurd-length")),
        3 => (len.clone(), 0usize..4).prop_map(|(l, n)| {
            let mut v = format!("*{}\r\n", n + 1).into_bytes();
            for _ in 0..n { v.extend_from_slice(b"$3\r\nSET\r\n"); }
            v.extend_from_slice(format!("${}\r\n", l).as_bytes());
            v.extend_from_slice(b"xyz\r\n");
            (v, "absurd-bulk-length-inside-command")
        }),
        2 => proptest::sample::select(vec![100usize, 1000, 20_000, 200_000]).prop_map(|d| ("*1\r\n".repeat(d).into_bytes(), "deep-nesting")),
        // the same through every other aggregate type, and mixed: each has its own recursion
        3 => (proptest::sample::select(vec!["~1\r\n", "%1\r\n", ">1\r\n", "*1\r\n~1\r\n", "~1\r\n%1\r\n*1\r\n", "%1\r\n+k\r\n", "*2\r\n:1\r\n"]), proptest::sample::select(vec![200usize, 5000, 300_000]))
            .prop_map(|(unit, d)| (unit.repeat(d).into_bytes(), "deep-nesting-other-aggregates")),
        2 => proptest::sample::select(vec![1000usize, 50_000]).prop_map(|d| { let mut v = "*2\r\n$4\r\nECHO\r\n".repeat(d).into_bytes(); v.extend_from_slice(b"$1\r\nx\r\n"); (v, "nested-commands") }),
        3 => (0usize..60).prop_map({ let g = good.clone(); move |cut| { let mut v = g.clone(); v.truncate(cut.min(v.len().saturating_sub(1))); (v, "truncated-then-close") } }),
        2 => proptest::sample::select(vec![1000usize, 100_000]).prop_map(|n| (encode_cmd(&["PING"]).repeat(n), "flood-of-tiny-commands")),
        2 => proptest::sample::select(vec![10_000usize, 300_000]).prop_map(|n| { let mut v = format!("*{}\r\n", n).into_bytes(); for _ in 0..n { v.extend_from_slice(b"$1\r\na\r\n"); } (v, "huge-argument-count") }),
        2 => proptest::sample::select(vec![1usize << 20, 32 << 20]).prop_map(|n| { let mut v = format!("*3\r\n$3\r\nSET\r\n$5\r\nt:big\r\n${}\r\n", n).into_bytes(); v.extend(std::iter::repeat(b'x').take(n)); v.extend_from_slice(b"\r\n"); (v, "large-legitimate-value") }),
        2 => proptest::sample::select(vec![b"+OK\r\n".to_vec(), b":1\r\n".to_vec(), b"$-1\r\n".to_vec(), b"_\r\n".to_vec(), b"#t\r\n".to_vec(), b",1.5\r\n".to_vec(), b"%1\r\n+a\r\n+b\r\n".to_vec(), b"~1\r\n+a\r\n".to_vec(), b"*-1\r\n".to_vec(), b"*0\r\n".to_vec()]).prop_map(|v| (v, "non-command-frame")),
        2 => proptest::sample::select(vec![b"GET k\r\n".to_vec(), b"SET a b\r\n".to_vec(), b"\r\n\r\n\r\n".to_vec(), b"PING".to_vec(), b"PIN".to_vec(), b"PINGPINGPING\r\n".to_vec(), b"   \t  ".to_vec(), b"QUIT\r\n".to_vec()]).prop_map(|v| (v, "inline-text")),
        3 => proptest::collection::vec(any::<u8>(), 1..400).prop_map(|v| (v, "binary-garbage")),
        2 => proptest::collection::vec(proptest::sample::select(b"*$+-:_#,%~0123456789\r\n".to_vec()), 1..200).prop_map(|v| (v, "alphabet-garbage")),
        1 => proptest::sample::select(vec![100_000usize, 2_000_000]).prop_map(|n| (vec![b'A'; n], "long-line-without-crlf")),
        1 => proptest::sample::select(vec![100_000usize, 2_000_000]).prop_map(|n| { let mut v = b"+".to_vec(); v.extend(std::iter::repeat(b'A').take(n)); (v, "long-line-without-crlf") }),
    ]
    .boxed()
}

pub fn run(tier: Tier, seed: u64, replay: Option<Value>) -> i32 {
    let ev = Mutex::new(Evidence::new(
        "C06",
        tier,
        seed,
        "exploration",
        "A: boundary enumeration - every command name the server dispatches (string literals of the dispatch match arms read from /repo at check time, plus a static list; process-stopping commands SHUTDOWN/SLEEP/DEBUG/REPLICAOF/CLIENT/QUIT/SYNC/MONITOR excluded) x 0..5 arguments x fuzzed position x a 47-value numeric/ID boundary pool (0, +-1, +-2^20, +-2^40, i64/u64 edges and one beyond, 1e30, 1e308, 1e400, inf, nan, empty, non-numbers, malformed stream IDs) x target key in 13 states (absent, string, integer, and 1- and 100-element list/set/hash/zset/stream), plus ~70 sub-command-aware forms per pool value (SET EX/PX, COUNT/BLOCK/MAXLEN options, XGROUP/XREADGROUP/XCLAIM/XPENDING, SCAN family, EVAL numkeys and script-issued boundary commands, hostile Lua); sent in batches of 48 on throw-away connections, oracle after each batch, failing batches bisected to one request on fresh servers and confirmed twice. The quick tier takes every n-th element of the enumeration (offset by the seed), the thorough tier all. Counts with magnitude in (2^20, 2^40) are not generated (a 62 GB machine could legitimately try to serve them). B: generated hostile byte streams (absurd declared lengths, nesting to 200000, truncation then close, floods, 300000-argument commands, 32 MB values, non-command frames, inline text, garbage). Oracle after every input: process alive, PONG on a fresh connection within 5 s, sentinel keys of all six types in database 15 intact. Non-trivial = a request with at least one argument from the boundary pool, or a hostile stream; distinct by hash of the request",
    ));
    if let Some(r) = replay {
        let c = r.get("case").unwrap_or(&r);
        let mut sut = match Sut::fresh() {
            Ok(s) => s,
            Err(e) => {
                eprintln!("infrastructure: {}", e);
                return 2;
            }
        };
        let (bytes, sentinel) = match c.get("kind").and_then(|k| k.as_str()) {
            Some("request") => {
                let cm = j2cmd(c.get("cmd").unwrap_or(&Value::Null));
                (encode_cmd(&cm), !affects_sentinel(&cm))
            }
            Some("batch") => {
                let cmds: Vec<Cmd> = c.get("cmds").and_then(|x| x.as_array()).map(|a| a.iter().map(j2cmd).collect()).unwrap_or_default();
                (batch_bytes(&cmds), !cmds.iter().any(affects_sentinel))
            }
            _ => (crate::driver::j2b(c.get("bytes").unwrap_or(&Value::Null)), true),
        };
        fire(&sut.server, &bytes, Duration::from_millis(100));
        let h = health(&mut sut.server, sentinel);
        crate::outln!("replay: {:?}", h);
        return if h == Health::Ok { 0 } else { 1 };
    }

    let (commands, from_source) = commands_from_source();
    let full = enumerate(&commands, 1, 0).len();
    let stride = tier.pick(std::cmp::max(1, full / 45_000), 1);
    let mut requests = enumerate(&commands, stride, seed as usize);
    let ex = extras();
    let ex_stride = tier.pick(3usize, 1usize);
    requests.extend(ex.iter().enumerate().filter(|(i, _)| i % ex_stride == (seed as usize) % ex_stride).map(|(_, c)| c.clone()));
    {
        let mut e = ev.lock().unwrap();
        e.extra.insert("commands".into(), json!(commands.len()));
        e.extra.insert("commands_found_only_in_source".into(), json!(from_source));
        e.extra.insert("enumeration_size_full".into(), json!(full + ex.len()));
        e.extra.insert("enumeration_stride".into(), json!(stride));
        e.extra.insert("exhaustive".into(), json!(stride == 1));
    }
    let batches: Vec<Vec<Cmd>> = requests.chunks(48).map(|c| c.to_vec()).collect();
    let workers = crate::workers();
    let next = std::sync::atomic::AtomicUsize::new(0);
    std::thread::scope(|sc| {
        for _ in 0..workers {
            let (ev, batches, next) = (&ev, &batches, &next);
            sc.spawn(move || {
                let mut sut = match Sut::fresh() {
                    Ok(s) => s,
                    Err(e) => {
                        ev.lock().unwrap().infra.push(format!("worker start: {}", e));
                        return;
                    }
                };
                loop {
                    let i = next.fetch_add(1, std::sync::atomic::Ordering::SeqCst);
                    if i >= batches.len() {
                        break;
                    }
                    let b = &batches[i];
                    if let Err(e) = run_batch(&mut sut, b, ev) {
                        ev.lock().unwrap().infra.push(format!("batch {}: {}", i, e));
                        match Sut::fresh() {
                            Ok(s) => sut = s,
                            Err(_) => return,
                        }
                    }
                    let mut e = ev.lock().unwrap();
                    e.evaluations += b.len() as u64;
                    e.count_label("A-boundary-request", b.len() as u64);
                    for c in b {
                        e.nontrivial.insert(hash_debug(c));
                    }
                    if i % 257 == 0 && e.samples.len() < 3 {
                        e.samples.push(json!({"kind": "request", "cmd": crate::model::show_cmd(&b[b.len() / 2])}));
                    }
                }
            });
        }
    });
    // hostile Lua, one script at a time with the longer bound
    let findings = crate::findings::Findings::load();
    let known_lua = findings.open_for("C06").into_iter().find(|f| f.id == K_LUA_LOOP);
    let lua_known_printed = std::sync::atomic::AtomicBool::new(false);
    std::thread::scope(|sc| {
        for (i, script) in lua_hostile().into_iter().enumerate() {
            let (ev, known_lua, lua_known_printed) = (&ev, &known_lua, &lua_known_printed);
            sc.spawn(move || {
                let mut sut = match Sut::fresh() {
                    Ok(s) => s,
                    Err(e) => {
                        ev.lock().unwrap().infra.push(e);
                        return;
                    }
                };
                let cm: Cmd = vec![bs("EVAL"), bs(script), bs("0")];
                fire(&sut.server, &encode_cmd(&cm), Duration::from_millis(50));
                let h = health_within(&mut sut.server, true, Duration::from_secs(12));
                let mut e = ev.lock().unwrap();
                e.evaluations += 1;
                e.count_label("A-hostile-lua", 1);
                e.nontrivial.insert(hash_debug(&cm));
                if i == 0 {
                    e.add_sample(json!({"kind": "request", "cmd": crate::model::show_cmd(&cm)}));
                }
                if h != Health::Ok {
                    match (known_lua, &h) {
                        (Some(f), Health::Wedged(_)) if script.contains("string.find") => {
                            if !lua_known_printed.swap(true, std::sync::atomic::Ordering::SeqCst) {
                                e.known(&f.id, &f.what_fails);
                            }
                            *e.excluded.entry(f.id.clone()).or_insert(0) += 1;
                        }
                        _ => {
                            let sig = match &h {
                                Health::Died(_) => "EVAL:server-died",
                                Health::Wedged(_) => "EVAL:server-wedged",
                                _ => "EVAL:data-lost",
                            };
                            e.violation(&format!("{} -> {:?}", crate::model::show_cmd(&cm), h), sig, json!({"kind": "request", "cmd": cmd2j(&cm)}));
                        }
                    }
                }
            });
        }
    });

    // B
    let nb = tier.pick(700u64, 12_000u64);
    let mut runner = seeded_runner(seed, 77);
    let strat = hostile_stream();
    let streams: Vec<(Vec<u8>, &'static str)> = (0..nb).map(|_| strat.new_tree(&mut runner).unwrap().current()).collect();
    let next = std::sync::atomic::AtomicUsize::new(0);
    std::thread::scope(|sc| {
        for _ in 0..workers {
            let (ev, streams, next) = (&ev, &streams, &next);
            sc.spawn(move || {
                let mut sut = match Sut::fresh() {
                    Ok(s) => s,
                    Err(_) => return,
                };
                loop {
                    let i = next.fetch_add(1, std::sync::atomic::Ordering::SeqCst);
                    if i >= streams.len() {
                        break;
                    }
                    let (bytes, class) = &streams[i];
                    fire(&sut.server, bytes, Duration::from_millis(20));
                    let mut h = health(&mut sut.server, true);
                    if h != Health::Ok {
                        // confirm on a fresh server
                        if let Ok(s) = Sut::fresh() {
                            sut = s;
                            fire(&sut.server, bytes, Duration::from_millis(50));
                            h = health(&mut sut.server, true);
                            if h != Health::Ok {
                                let sig = match &h {
                                    Health::Died(_) => format!("stream:{}:server-died", class),
                                    Health::Wedged(_) => format!("stream:{}:server-wedged", class),
                                    _ => format!("stream:{}:data-lost", class),
                                };
                                let shown = crate::resp::show_bytes(&bytes[..bytes.len().min(80)]);
                                ev.lock().unwrap().violation(&format!("hostile stream ({}, {} bytes: {}) -> {:?}", class, bytes.len(), shown, h), &sig, json!({"kind": "stream", "class": class, "bytes": if bytes.len() <= 4096 { crate::driver::b2j(bytes) } else { Value::Null }, "len": bytes.len()}));
                                if let Ok(s) = Sut::fresh() {
                                    sut = s;
                                }
                            } else {
                                ev.lock().unwrap().infra.push(format!("stream {} failed once but did not reproduce", class));
                            }
                        }
                    }
                    let mut e = ev.lock().unwrap();
                    e.evaluations += 1;
                    e.count_label(&format!("B-stream:{}", class), 1);
                    e.nontrivial.insert(hash_debug(bytes));
                    if i % 101 == 0 && e.samples.len() < 6 {
                        e.samples.push(json!({"kind": "stream", "class": class, "head": crate::resp::show_bytes(&bytes[..bytes.len().min(60)]), "len": bytes.len()}));
                    }
                }
            });
        }
    });
    let e = ev.lock().unwrap();
    let _ = e.write();
    e.exit_code()
}

pub const K_LUA_LOOP: &str = "K06-lua-pattern-bomb-not-interruptible";

