//! C07 — MULTI/EXEC runs the queued commands atomically, in order, or not at all.
//! Part A: harness-sequenced histories of 1..3 connections against the model.
//! Part B (concurrent invariant workload) is in c07b.rs.

use super::hist::HistSpec;
use crate::findings::Active;
use crate::model::{Cmd, World};

fn nontrivial(w: &World) -> bool {
    w.labels.contains("exec>=2") && w.mutations >= 1
}

fn excluder(a: &Active, w: &mut World, conn: usize, c: &Cmd) -> Option<&'static str> {
    super::kf::common_excluder(a, w, conn, c)
}

pub fn spec() -> HistSpec {
    HistSpec {
        id: "C07",
        rule: "A: generated histories of 1..8 blocks over 3 connections (MULTI, 0..8 queued commands of every family incl. ones that fail at run time, commands of other connections interleaved while the first is inside MULTI, then EXEC / DISCARD / disconnect / nothing; stray EXEC, DISCARD, nested MULTI), sequenced by the harness and compared with the model: +QUEUED and no effect while queueing (dump from an observer connection), EXEC slots equal the model's back-to-back replies, errors stay in their slot, state cleared by EXEC/DISCARD/disconnect. Non-trivial = an EXEC with >= 2 queued commands and at least one mutation; distinct by hash of the step list. B: bursts of 6 writer connections running generated transfer transactions (one write / one write per command / two transactions pipelined) and 6 reader connections taking MGET, LLEN and read-only MULTI/EXEC snapshots; oracle: every snapshot sums to the initial total, the log length is even, final state = acknowledged transfers; non-trivial = distinct balance tuples seen by snapshots whose [send, receive] interval overlaps a transfer. C: a client blocked in BLPOP/BRPOP while another connection's transaction (sent in one write or command by command) pushes to its list by LPUSH/RPUSH/EVAL/EVALSHA and then reads it with LLEN/LRANGE/LPOP/RPOP: the EXEC reply equals the queued commands run back to back, the blocked client is served only afterwards; non-trivial = the list is looked at after a push inside the transaction",
        history: Some(|max_len| crate::gen::c07_history(3, std::cmp::max(2, max_len / 5))),
        max_len: 40,
        quick_cases: 4000,
        thorough_cases: 80000,
        nontrivial,
        probes: vec![(super::kf::K_LAX_INT, super::kf::probe_lax_int)],
        excluder,
        label_floors: vec![("exec>=2", 300), ("exec-slot-error", 100), ("discard", 50), ("reconnect", 30), ("mid-dump", 200)],
        assumptions: vec!["queue-time rejection (EXECABORT) of unknown commands is not assumed: only known commands with valid arity are queued", "one command is one step on the single command thread, so harness-sequenced interleavings are deterministic"],
        nconns: 3,
        pre_phase: Some(|ev, tier, seed| {
            super::c07b::phase(ev, tier, seed);
            super::c07c::phase(ev, tier, seed);
        }),
        pre_replay: Some(|v| super::c07b::replay(v).or_else(|| super::c07c::replay(v))),
        ..Default::default()
    }
}
