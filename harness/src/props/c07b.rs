//! C07 part B (also used by C12 for script atomicity): concurrent invariant workload.
//! Writers run invariant-preserving transfers (MULTI/EXEC sent as one write, as several
//! writes, pipelined back to back; or as a script); readers take single-command snapshots.
//! Oracle (holds under every schedule): every snapshot sums to the initial total and sees an
//! even log length; the final state equals the sum of acknowledged transfers.

use crate::client::{Client, Reply};
use crate::driver::{seeded_runner, Evidence, Tier};
use crate::resp::{encode_cmd, Frame};
use crate::sut::{Server, ServerOpts};
use proptest::prelude::*;
use proptest::strategy::ValueTree;
use serde_json::json;
use std::sync::atomic::{AtomicBool, AtomicU64, Ordering};
use std::sync::Mutex;
use std::time::{Duration, Instant};

const KEYS: [&str; 4] = ["acct:a", "acct:b", "acct:c", "acct:d"];
const INITIAL: i64 = 100_000;

#[derive(Clone, Debug)]
pub struct Transfer {
    src: usize,
    dst: usize,
    n: i64,
    /// 0 = MULTI..EXEC in one write, 1 = one write per command, 2 = two transactions pipelined
    /// back to back in one write, 3 = script
    mode: u8,
}

fn plan(use_scripts: bool) -> BoxedStrategy<Vec<Transfer>> {
    let mode = if use_scripts { prop_oneof![Just(3u8), Just(3u8), Just(0u8)].boxed() } else { prop_oneof![Just(0u8), Just(1u8), Just(2u8)].boxed() };
    proptest::collection::vec((0..4usize, 1..4usize, 1..50i64, mode).prop_map(|(s, d, n, mode)| Transfer { src: s, dst: (s + d) % 4, n, mode }), 200..400).boxed()
}

const SCRIPT: &str = "redis.call('DECRBY', KEYS[1], ARGV[1]); redis.call('INCRBY', KEYS[2], ARGV[1]); redis.call('RPUSH', 'xfer:log', 'x'); redis.call('RPUSH', 'xfer:log', 'y'); return 1";

fn tx_bytes(t: &Transfer) -> Vec<Vec<u8>> {
    let n = t.n.to_string();
    vec![
        encode_cmd(&["MULTI"]),
        encode_cmd(&["DECRBY", KEYS[t.src], &n]),
        encode_cmd(&["INCRBY", KEYS[t.dst], &n]),
        encode_cmd(&["RPUSH", "xfer:log", "x"]),
        encode_cmd(&["RPUSH", "xfer:log", "y"]),
        encode_cmd(&["EXEC"]),
    ]
}

/// Read the six replies of one transaction; Ok(true) if EXEC returned four non-error slots.
fn read_tx(c: &mut Client) -> Result<bool, String> {
    for i in 0..5 {
        match c.reply() {
            Reply::Frame(Frame::Simple(_)) => {}
            r => return Err(format!("transaction reply {}: {:?}", i, r)),
        }
    }
    match c.reply() {
        Reply::Frame(Frame::Array(v)) if v.len() == 4 && v.iter().all(|f| !f.is_error()) => Ok(true),
        r => Err(format!("EXEC reply: {:?}", r)),
    }
}

pub struct BurstStats {
    pub transfers_acked: u64,
    pub snapshots: u64,
    pub overlapping: u64,
    pub distinct_overlapping: u64,
    pub violations: Vec<String>,
    pub commands: u64,
}

pub fn burst(seed: u64, stream: u64, writers: usize, readers: usize, use_scripts: bool) -> Result<BurstStats, String> {
    let server = Server::start(ServerOpts::default())?;
    let mut c0 = server.client().map_err(|e| e.to_string())?;
    for k in KEYS {
        c0.cmd(&["SET", k, &INITIAL.to_string()]);
    }
    let total = INITIAL * 4;
    let mut runner = seeded_runner(seed, stream);
    let plans: Vec<Vec<Transfer>> = (0..writers).map(|_| plan(use_scripts).new_tree(&mut runner).unwrap().current()).collect();
    let done = AtomicBool::new(false);
    let acked = AtomicU64::new(0);
    let commands = AtomicU64::new(0);
    let violations: Mutex<Vec<String>> = Mutex::new(Vec::new());
    let exec_intervals: Mutex<Vec<(Instant, Instant)>> = Mutex::new(Vec::new());
    let snaps: Mutex<Vec<(Instant, Instant, [i64; 4])>> = Mutex::new(Vec::new());
    let port = server.port;
    std::thread::scope(|sc| {
        let mut whs = Vec::new();
        for p in &plans {
            let (acked, commands, violations, exec_intervals) = (&acked, &commands, &violations, &exec_intervals);
            whs.push(sc.spawn(move || {
                let mut c = match Client::connect(port) {
                    Ok(c) => c,
                    Err(e) => {
                        violations.lock().unwrap().push(format!("infra: connect {}", e));
                        return;
                    }
                };
                let mut local_iv = Vec::new();
                let mut i = 0;
                while i < p.len() {
                    let t = &p[i];
                    let t0 = Instant::now();
                    let r: Result<u64, String> = match t.mode {
                        3 => {
                            let n = t.n.to_string();
                            match c.cmd(&["EVAL", SCRIPT, "2", KEYS[t.src], KEYS[t.dst], &n]) {
                                Reply::Frame(Frame::Int(1)) => Ok(1),
                                r => Err(format!("transfer script reply {:?}", r)),
                            }
                        }
                        1 => {
                            let mut ok = true;
                            for b in tx_bytes(t) {
                                if c.send_raw(&b).is_err() {
                                    ok = false;
                                }
                            }
                            if ok {
                                read_tx(&mut c).map(|_| 1)
                            } else {
                                Err("send failed".into())
                            }
                        }
                        2 if i + 1 < p.len() => {
                            let mut all = tx_bytes(t).concat();
                            all.extend(tx_bytes(&p[i + 1]).concat());
                            i += 1;
                            if c.send_raw(&all).is_err() {
                                Err("send failed".into())
                            } else {
                                read_tx(&mut c).and_then(|_| read_tx(&mut c)).map(|_| 2)
                            }
                        }
                        _ => {
                            if c.send_raw(&tx_bytes(t).concat()).is_err() {
                                Err("send failed".into())
                            } else {
                                read_tx(&mut c).map(|_| 1)
                            }
                        }
                    };
                    let t1 = Instant::now();
                    match r {
                        Ok(n) => {
                            acked.fetch_add(n, Ordering::Relaxed);
                            commands.fetch_add(6 * n, Ordering::Relaxed);
                            local_iv.push((t0, t1));
                        }
                        Err(e) => {
                            violations.lock().unwrap().push(format!("writer: {}", e));
                            return;
                        }
                    }
                    i += 1;
                }
                exec_intervals.lock().unwrap().extend(local_iv);
            }));
        }
        for ri in 0..readers {
            let (done, commands, violations, snaps) = (&done, &commands, &violations, &snaps);
            sc.spawn(move || {
                let mut c = match Client::connect(port) {
                    Ok(c) => c,
                    Err(_) => return,
                };
                let mut local = Vec::new();
                let mut n = 0u64;
                while !done.load(Ordering::Relaxed) {
                    n += 1;
                    let t0 = Instant::now();
                    let vals: Result<[i64; 4], String> = if (n + ri as u64) % 3 == 0 {
                        // read-only transaction
                        let mut b = encode_cmd(&["MULTI"]);
                        for k in KEYS {
                            b.extend(encode_cmd(&["GET", k]));
                        }
                        b.extend(encode_cmd(&["EXEC"]));
                        let _ = c.send_raw(&b);
                        for _ in 0..5 {
                            let _ = c.reply();
                        }
                        match c.reply() {
                            Reply::Frame(Frame::Array(v)) if v.len() == 4 => parse4(&v),
                            r => Err(format!("read-only EXEC reply {:?}", r)),
                        }
                    } else {
                        match c.cmd(&["MGET", KEYS[0], KEYS[1], KEYS[2], KEYS[3]]) {
                            Reply::Frame(Frame::Array(v)) if v.len() == 4 => parse4(&v),
                            r => Err(format!("MGET reply {:?}", r)),
                        }
                    };
                    let t1 = Instant::now();
                    commands.fetch_add(1, Ordering::Relaxed);
                    match vals {
                        Ok(v) => {
                            let sum: i64 = v.iter().sum();
                            if sum != total {
                                violations.lock().unwrap().push(format!("snapshot {:?} sums to {} instead of {}: a transfer was observed half done", v, sum, total));
                                return;
                            }
                            local.push((t0, t1, v));
                        }
                        Err(e) => {
                            violations.lock().unwrap().push(format!("reader: {}", e));
                            return;
                        }
                    }
                    if n % 4 == 0 {
                        match c.cmd(&["LLEN", "xfer:log"]) {
                            Reply::Frame(Frame::Int(l)) if l % 2 == 0 => {}
                            r => {
                                violations.lock().unwrap().push(format!("LLEN xfer:log = {:?}: odd length means a transaction was observed half done", r));
                                return;
                            }
                        }
                    }
                }
                snaps.lock().unwrap().extend(local);
            });
        }
        for h in whs {
            let _ = h.join();
        }
        done.store(true, Ordering::Relaxed);
    });
    // final state
    let mut violations = violations.into_inner().unwrap();
    let acked_n = acked.load(Ordering::Relaxed);
    match c0.cmd(&["MGET", KEYS[0], KEYS[1], KEYS[2], KEYS[3]]) {
        Reply::Frame(Frame::Array(v)) => match parse4(&v) {
            Ok(vals) if vals.iter().sum::<i64>() == total => {}
            other => violations.push(format!("final balances {:?} do not sum to {}", other, total)),
        },
        r => violations.push(format!("final MGET {:?}", r)),
    }
    if violations.iter().all(|v| !v.starts_with("writer")) {
        match c0.cmd(&["LLEN", "xfer:log"]) {
            Reply::Frame(Frame::Int(l)) if l as u64 == 2 * acked_n => {}
            r => violations.push(format!("final LLEN xfer:log {:?}, expected {} (2 per acknowledged transfer)", r, 2 * acked_n)),
        }
    }
    // overlap accounting
    let mut ivs = exec_intervals.into_inner().unwrap();
    ivs.sort();
    let snaps = snaps.into_inner().unwrap();
    let mut overlapping = 0u64;
    let mut distinct = std::collections::HashSet::new();
    let starts: Vec<Instant> = ivs.iter().map(|i| i.0).collect();
    let max_len = ivs.iter().map(|i| i.1.duration_since(i.0)).max().unwrap_or(Duration::ZERO);
    for (s0, s1, v) in &snaps {
        // any transaction interval [a, b] with a <= s1 and b >= s0
        let lo = starts.partition_point(|a| *a + max_len < *s0);
        let mut hit = false;
        for iv in &ivs[lo..] {
            if iv.0 > *s1 {
                break;
            }
            if iv.1 >= *s0 {
                hit = true;
                break;
            }
        }
        if hit {
            overlapping += 1;
            distinct.insert(*v);
        }
    }
    Ok(BurstStats { transfers_acked: acked_n, snapshots: snaps.len() as u64, overlapping, distinct_overlapping: distinct.len() as u64, violations, commands: commands.load(Ordering::Relaxed) })
}

fn parse4(v: &[Frame]) -> Result<[i64; 4], String> {
    let mut out = [0i64; 4];
    for (i, f) in v.iter().enumerate().take(4) {
        out[i] = f.as_bytes().and_then(|b| std::str::from_utf8(b).ok()).and_then(|s| s.parse::<i64>().ok()).ok_or_else(|| format!("balance {} is {:?}", i, f))?;
    }
    Ok(out)
}

pub fn phase_with(ev: &mut Evidence, tier: Tier, seed: u64, use_scripts: bool, label: &str) {
    let bursts = tier.pick(8u64, 60u64);
    for b in 0..bursts {
        match burst(seed, 500 + b, 6, 6, use_scripts) {
            Ok(st) => {
                ev.evaluations += st.snapshots;
                ev.count_label(&format!("{}-snapshot", label), st.snapshots);
                ev.count_label(&format!("{}-snapshot-overlapping-a-transfer", label), st.overlapping);
                ev.count_label(&format!("{}-transfers-acked", label), st.transfers_acked);
                ev.count_label(&format!("{}-commands", label), st.commands);
                // distinct non-trivial = distinct balance tuples seen by snapshots that overlapped a transfer
                for i in 0..st.distinct_overlapping {
                    ev.nontrivial.insert(0xB000_0000_0000_0000 ^ (b << 32) ^ i ^ if use_scripts { 1 << 60 } else { 0 });
                }
                if b == 0 {
                    ev.add_sample(json!({"kind": "concurrent-burst", "writers": 6, "readers": 6, "transfers_acked": st.transfers_acked, "snapshots": st.snapshots, "overlapping": st.overlapping, "scripts": use_scripts}));
                }
                for v in st.violations.iter().take(3) {
                    if v.starts_with("infra") {
                        ev.infra.push(v.clone());
                    } else {
                        ev.violation(v, "concurrent-atomicity", json!({"kind": "concurrent-burst", "seed": seed, "burst": b, "scripts": use_scripts, "note": "schedule-dependent: re-run the burst; the invariant holds under every schedule"}));
                    }
                }
            }
            Err(e) => ev.infra.push(format!("burst: {}", e)),
        }
    }
}

pub fn phase(ev: &mut Evidence, tier: Tier, seed: u64) {
    phase_with(ev, tier, seed, false, "B")
}

pub fn replay(v: &serde_json::Value) -> Option<i32> {
    if v.get("kind").and_then(|k| k.as_str()) != Some("concurrent-burst") {
        return None;
    }
    let seed = v.get("seed").and_then(|s| s.as_u64()).unwrap_or(1);
    let b = v.get("burst").and_then(|s| s.as_u64()).unwrap_or(0);
    let scripts = v.get("scripts").and_then(|s| s.as_bool()).unwrap_or(false);
    for _ in 0..5 {
        match burst(seed, 500 + b, 6, 6, scripts) {
            Ok(st) if !st.violations.is_empty() => {
                crate::outln!("replay: FAIL {}", st.violations[0]);
                return Some(1);
            }
            Ok(_) => {}
            Err(e) => {
                crate::outln!("replay: inconclusive {}", e);
                return Some(2);
            }
        }
    }
    crate::outln!("replay: PASS (5 bursts)");
    Some(0)
}
