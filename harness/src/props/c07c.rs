//! C07 part C: a client blocked in BLPOP/BRPOP while another connection's transaction pushes
//! to its list (directly or from a script queued in the transaction) and then looks at the list.
//! The transaction is one indivisible step: the blocked client is served after EXEC, never
//! between two queued commands.

use crate::client::Reply;
use crate::driver::{seeded_runner, Evidence, Tier};
use crate::model::Bytes;
use crate::resp::{encode_cmd, Frame};
use crate::sut::{Server, ServerOpts};
use proptest::prelude::*;
use proptest::strategy::ValueTree;
use serde_json::{json, Value};
use std::collections::VecDeque;
use std::time::Duration;

#[derive(Clone, Debug)]
enum Q {
    /// via: 0 LPUSH, 1 RPUSH, 2 EVAL doing RPUSH, 3 EVALSHA doing LPUSH
    Push(u8),
    Llen,
    Lrange,
    Lpop,
    Rpop,
    SetOther,
}

#[derive(Clone, Debug)]
struct Scn {
    right: bool,
    queued: Vec<Q>,
    one_write: bool,
}

fn scn() -> BoxedStrategy<Scn> {
    let q = prop_oneof![3 => (0u8..4).prop_map(Q::Push), 3 => Just(Q::Llen), 3 => Just(Q::Lrange), 1 => Just(Q::Lpop), 1 => Just(Q::Rpop), 1 => Just(Q::SetOther)];
    (any::<bool>(), proptest::collection::vec(q, 2..7), any::<bool>()).prop_map(|(right, queued, one_write)| Scn { right, queued, one_write }).boxed()
}

const LSRC: &str = "return redis.call('LPUSH', KEYS[1], ARGV[1])";
const RSRC: &str = "return redis.call('RPUSH', KEYS[1], ARGV[1])";

fn run_one(server: &mut Server, s: &Scn) -> Result<bool, String> {
    let mut ctl = crate::runner::reset_server(server)?;
    let _ = ctl.cmd(&["SCRIPT", "LOAD", LSRC]);
    let mut a = server.client().map_err(|e| e.to_string())?;
    let mut b = server.client().map_err(|e| e.to_string())?;
    b.send_cmd(&[if s.right { "BRPOP" } else { "BLPOP" }, "q", "0"]).map_err(|e| e.to_string())?;
    for _ in 0..2 {
        let _ = ctl.cmd(&["PING"]);
    }
    // the transaction
    let mut model: VecDeque<Bytes> = VecDeque::new();
    let mut want: Vec<Frame> = Vec::new();
    let mut cmds: Vec<Vec<Bytes>> = vec![vec![b"MULTI".to_vec()]];
    let mut n = 0;
    let mut observed_after_push = false;
    let mut pushed = false;
    let bs = |x: &str| x.as_bytes().to_vec();
    for q in &s.queued {
        match q {
            Q::Push(via) => {
                n += 1;
                let e = format!("e{}", n).into_bytes();
                let left = *via == 0 || *via == 3;
                if left {
                    model.push_front(e.clone());
                } else {
                    model.push_back(e.clone());
                }
                want.push(Frame::Int(model.len() as i64));
                cmds.push(match via {
                    0 => vec![bs("LPUSH"), bs("q"), e],
                    1 => vec![bs("RPUSH"), bs("q"), e],
                    2 => vec![bs("EVAL"), bs(RSRC), bs("1"), bs("q"), e],
                    _ => vec![bs("EVALSHA"), crate::sha1::sha1_hex(LSRC.as_bytes()).into_bytes(), bs("1"), bs("q"), e],
                });
                pushed = true;
            }
            Q::Llen => {
                want.push(Frame::Int(model.len() as i64));
                cmds.push(vec![bs("LLEN"), bs("q")]);
                observed_after_push |= pushed;
            }
            Q::Lrange => {
                want.push(Frame::Array(model.iter().map(|e| Frame::Bulk(e.clone())).collect()));
                cmds.push(vec![bs("LRANGE"), bs("q"), bs("0"), bs("-1")]);
                observed_after_push |= pushed;
            }
            Q::Lpop => {
                want.push(model.pop_front().map_or(Frame::NullBulk, Frame::Bulk));
                cmds.push(vec![bs("LPOP"), bs("q")]);
                observed_after_push |= pushed;
            }
            Q::Rpop => {
                want.push(model.pop_back().map_or(Frame::NullBulk, Frame::Bulk));
                cmds.push(vec![bs("RPOP"), bs("q")]);
                observed_after_push |= pushed;
            }
            Q::SetOther => {
                want.push(Frame::ok());
                cmds.push(vec![bs("SET"), bs("other"), bs("v")]);
            }
        }
    }
    cmds.push(vec![b"EXEC".to_vec()]);
    if s.one_write {
        let mut w = Vec::new();
        for c in &cmds {
            w.extend(encode_cmd(c));
        }
        a.send_raw(&w).map_err(|e| e.to_string())?;
    }
    let mut exec_reply = Reply::Timeout;
    for (i, c) in cmds.iter().enumerate() {
        if !s.one_write {
            a.send_cmd(c).map_err(|e| e.to_string())?;
        }
        let r = a.reply();
        if i == 0 {
            if r != Reply::Frame(Frame::ok()) {
                return Err(format!("infra: MULTI -> {:?}", r));
            }
        } else if i + 1 < cmds.len() {
            if r != Reply::Frame(Frame::Simple(b"QUEUED".to_vec())) {
                return Err(format!("queueing {} -> {:?}, expected QUEUED", crate::model::show_cmd(c), r));
            }
        } else {
            exec_reply = r;
        }
    }
    if exec_reply != Reply::Frame(Frame::Array(want.clone())) {
        return Err(format!(
            "a client is blocked in {} on q while another connection runs MULTI {} EXEC: EXEC replied {:?}, but run as one indivisible step the queued commands give {:?} (the blocked client may be served only after EXEC)",
            if s.right { "BRPOP" } else { "BLPOP" },
            cmds[1..cmds.len() - 1].iter().map(|c| crate::model::show_cmd(c)).collect::<Vec<_>>().join(" ; "),
            exec_reply,
            Frame::Array(want)
        ));
    }
    // afterwards the blocked client gets the head / tail, if anything is left
    let due = if s.right { model.pop_back() } else { model.pop_front() };
    match due {
        Some(e) => {
            let r = b.read_reply(Duration::from_secs(4));
            let wantb = Frame::Array(vec![Frame::bulk("q"), Frame::Bulk(e)]);
            if r != Reply::Frame(wantb.clone()) {
                return Err(format!("after the transaction the blocked client must receive {:?}, got {:?}", wantb, r));
            }
        }
        None => {
            if let Reply::Frame(f) = b.read_reply(Duration::from_millis(30)) {
                return Err(format!("the list is empty after the transaction but the blocked client received {:?}", f));
            }
        }
    }
    let r = ctl.cmd(&["LRANGE", "q", "0", "-1"]);
    let wantl = Frame::Array(model.iter().map(|e| Frame::Bulk(e.clone())).collect());
    if r != Reply::Frame(wantl.clone()) {
        return Err(format!("after the transaction and the service of the blocked client the list is {:?}, expected {:?}", r, wantl));
    }
    b.close();
    Ok(observed_after_push)
}

fn scn2j(s: &Scn) -> Value {
    json!({"kind": "blocked-vs-exec", "right": s.right, "one_write": s.one_write, "queued": s.queued.iter().map(|q| match q { Q::Push(v) => format!("push{}", v), Q::Llen => "llen".into(), Q::Lrange => "lrange".into(), Q::Lpop => "lpop".into(), Q::Rpop => "rpop".into(), Q::SetOther => "set".into() }).collect::<Vec<String>>()})
}

fn j2scn(v: &Value) -> Scn {
    Scn {
        right: v.get("right").and_then(|x| x.as_bool()).unwrap_or(false),
        one_write: v.get("one_write").and_then(|x| x.as_bool()).unwrap_or(false),
        queued: v
            .get("queued")
            .and_then(|q| q.as_array())
            .map(|a| {
                a.iter()
                    .filter_map(|x| x.as_str())
                    .map(|x| match x {
                        "llen" => Q::Llen,
                        "lrange" => Q::Lrange,
                        "lpop" => Q::Lpop,
                        "rpop" => Q::Rpop,
                        "set" => Q::SetOther,
                        p => Q::Push(p.trim_start_matches("push").parse().unwrap_or(0)),
                    })
                    .collect()
            })
            .unwrap_or_default(),
    }
}

pub fn phase(ev: &mut Evidence, tier: Tier, seed: u64) {
    let mut server = match Server::start(ServerOpts::default()) {
        Ok(s) => s,
        Err(e) => {
            ev.infra.push(e);
            return;
        }
    };
    let mut runner = seeded_runner(seed, 900);
    let strat = scn();
    for _ in 0..tier.pick(250, 5000) {
        let Ok(t) = strat.new_tree(&mut runner) else { continue };
        let s = t.current();
        if !server.alive() {
            match Server::start(ServerOpts::default()) {
                Ok(x) => server = x,
                Err(e) => {
                    ev.infra.push(e);
                    return;
                }
            }
        }
        ev.evaluations += 1;
        ev.count_label("C-blocked-client-vs-exec", 1);
        match run_one(&mut server, &s) {
            Ok(nt) => {
                if nt {
                    ev.count_label("C-list-observed-after-a-push-inside-the-transaction", 1);
                    ev.nontrivial.insert(crate::driver::hash_debug(&s));
                }
            }
            Err(e) if e.starts_with("infra") => ev.infra.push(e),
            Err(e) => {
                ev.violation(&e, "blocked-client-served-inside-exec", scn2j(&s));
                server.kill();
                if ev.violations.len() >= 4 {
                    return;
                }
            }
        }
    }
}

pub fn replay(v: &Value) -> Option<i32> {
    if v.get("kind").and_then(|k| k.as_str()) != Some("blocked-vs-exec") {
        return None;
    }
    let mut server = match Server::start(ServerOpts::default()) {
        Ok(s) => s,
        Err(e) => {
            eprintln!("infrastructure: {}", e);
            return Some(2);
        }
    };
    Some(match run_one(&mut server, &j2scn(v)) {
        Ok(_) => {
            crate::outln!("replay: PASS");
            0
        }
        Err(e) => {
            crate::outln!("replay: FAIL {}", e);
            1
        }
    })
}
