//! C08 — WATCH aborts EXEC whenever a watched key changed, and only then.
//! (a) enumerated grid: write command x watched-key state x path; (b) random histories.

use super::hist::HistSpec;
use crate::findings::Active;
use crate::gen::bs;
use crate::model::{cmd, Cmd, World, WRAP_SCRIPT};
use crate::runner::Step;
use proptest::prelude::*;

fn fnv_shard(key: &[u8]) -> u64 {
    let mut h: u64 = 0xcbf29ce484222325;
    for b in key {
        h ^= *b as u64;
        h = h.wrapping_mul(0x100000001b3);
    }
    h % 16
}

/// (same-shard name, other-shard name) relative to `w`.
fn shard_mates(w: &[u8]) -> (Vec<u8>, Vec<u8>) {
    let target = fnv_shard(w);
    let mut same = None;
    let mut other = None;
    for i in 0..1000 {
        let k = format!("o{}", i).into_bytes();
        if fnv_shard(&k) == target {
            if same.is_none() {
                same = Some(k);
            }
        } else if other.is_none() {
            other = Some(k);
        }
        if same.is_some() && other.is_some() {
            break;
        }
    }
    (same.unwrap(), other.unwrap())
}

fn c(conn: usize, parts: &[&str]) -> Step {
    Step::Cmd { conn, args: cmd(parts) }
}

fn states() -> Vec<(&'static str, Vec<Vec<&'static str>>)> {
    vec![
        ("absent", vec![]),
        ("string", vec![vec!["SET", "w", "5"]]),
        ("list", vec![vec!["RPUSH", "w", "a", "b"]]),
        ("set", vec![vec!["SADD", "w", "a", "b"]]),
        ("hash", vec![vec!["HSET", "w", "a", "1"]]),
        ("zset", vec![vec!["ZADD", "w", "1", "a", "2", "b"]]),
        ("stream", vec![vec!["XADD", "w", "1-1", "f", "v"]]),
        ("string+ttl", vec![vec!["SET", "w", "5", "EX", "1000"]]),
    ]
}

fn write_catalogue() -> Vec<Vec<&'static str>> {
    vec![
        vec!["SET", "w", "v"],
        vec!["SET", "w", "v", "NX"],
        vec!["SET", "w", "v", "XX"],
        vec!["SETNX", "w", "v"],
        vec!["SETEX", "w", "1000", "v"],
        vec!["PSETEX", "w", "1000000", "v"],
        vec!["GETSET", "w", "v"],
        vec!["MSET", "w", "v"],
        vec!["MSET", "o", "v", "w", "v"],
        vec!["APPEND", "w", "x"],
        vec!["SETRANGE", "w", "1", "x"],
        vec!["INCR", "w"],
        vec!["DECR", "w"],
        vec!["INCRBY", "w", "2"],
        vec!["DECRBY", "w", "2"],
        vec!["DEL", "w"],
        vec!["DEL", "o", "w"],
        vec!["RENAME", "w", "o"],
        vec!["RENAME", "src", "w"],
        vec!["RENAMENX", "w", "o"],
        vec!["RENAMENX", "src", "w"],
        vec!["EXPIRE", "w", "1000"],
        vec!["EXPIRE", "w", "0"],
        vec!["PEXPIRE", "w", "1000000"],
        vec!["PERSIST", "w"],
        vec!["FLUSHDB"],
        vec!["FLUSHALL"],
        vec!["LPUSH", "w", "x"],
        vec!["RPUSH", "w", "x"],
        vec!["LPOP", "w"],
        vec!["RPOP", "w"],
        vec!["LSET", "w", "0", "z"],
        vec!["LTRIM", "w", "0", "0"],
        vec!["LREM", "w", "0", "a"],
        vec!["BLPOP", "w", "0.01"],
        vec!["BRPOP", "w", "0.01"],
        vec!["SADD", "w", "x"],
        vec!["SADD", "w", "a"],
        vec!["SREM", "w", "a"],
        vec!["SPOP", "w"],
        vec!["HSET", "w", "f", "v"],
        vec!["HMSET", "w", "f", "v"],
        vec!["HDEL", "w", "a"],
        vec!["HINCRBY", "w", "a", "1"],
        vec!["ZADD", "w", "3", "c"],
        vec!["ZADD", "w", "1", "a"],
        vec!["ZREM", "w", "a"],
        vec!["ZINCRBY", "w", "1", "a"],
        vec!["ZPOPMIN", "w"],
        vec!["ZPOPMAX", "w"],
        vec!["XADD", "w", "*", "f", "v"],
        vec!["XADD", "w", "9-9", "f", "v"],
        vec!["XDEL", "w", "1-1"],
        vec!["XTRIM", "w", "MAXLEN", "0"],
        // reads and writes to other keys: must not abort
        vec!["GET", "w"],
        vec!["TYPE", "w"],
        vec!["EXISTS", "w"],
        vec!["TTL", "w"],
        vec!["LRANGE", "w", "0", "-1"],
        vec!["SMEMBERS", "w"],
        vec!["HGETALL", "w"],
        vec!["ZRANGE", "w", "0", "-1"],
        vec!["XLEN", "w"],
        vec!["SET", "@same", "v"],
        vec!["SET", "@other", "v"],
        vec!["DEL", "@same"],
        vec!["LPUSH", "@same", "x"],
        vec!["INCR", "@other"],
    ]
}

fn subst(parts: &[&str]) -> Cmd {
    let (same, other) = shard_mates(b"w");
    parts
        .iter()
        .map(|p| match *p {
            "@same" => same.clone(),
            "@other" => other.clone(),
            x => x.as_bytes().to_vec(),
        })
        .collect()
}

fn tail() -> Vec<Step> {
    vec![c(0, &["MULTI"]), c(0, &["SET", "probe", "1"]), c(0, &["EXEC"]), c(0, &["EXISTS", "probe"])]
}

pub fn grid() -> Vec<Vec<Step>> {
    let mut out = Vec::new();
    for (_sn, setup) in states() {
        for w in write_catalogue() {
            for path in 0..4 {
                let mut steps: Vec<Step> = Vec::new();
                for s in &setup {
                    steps.push(c(1, s));
                }
                // a source key for RENAME src w
                steps.push(c(1, &["SET", "src", "s"]));
                steps.push(c(0, &["WATCH", "w"]));
                let wc = subst(&w);
                match path {
                    0 => steps.push(Step::Cmd { conn: 1, args: wc }),
                    1 => steps.push(Step::Cmd { conn: 0, args: wc }),
                    2 => {
                        steps.push(c(1, &["MULTI"]));
                        steps.push(Step::Cmd { conn: 1, args: wc });
                        steps.push(c(1, &["EXEC"]));
                    }
                    _ => {
                        if matches!(w[0], "BLPOP" | "BRPOP" | "FLUSHALL") {
                            continue;
                        }
                        let mut a = vec![bs("EVAL"), WRAP_SCRIPT.to_vec(), bs("0")];
                        a.extend(wc);
                        steps.push(Step::Cmd { conn: 1, args: a });
                    }
                }
                steps.extend(tail());
                out.push(steps);
            }
        }
    }
    // a blocking pop served to a third client
    for setup in [vec![], vec![vec!["RPUSH", "other", "q"]]] {
        for pop in ["BLPOP", "BRPOP"] {
            let mut steps = Vec::new();
            for s in &setup {
                steps.push(c(1, s));
            }
            steps.push(Step::Send { conn: 2, args: cmd(&[pop, "w", "0"]) });
            steps.push(c(0, &["WATCH", "w"]));
            steps.push(c(1, &["RPUSH", "w", "x"]));
            steps.push(Step::Recv { conn: 2 });
            steps.extend(tail());
            out.push(steps);
        }
    }
    // the key's own deadline passing, observed before and after a sweeper pass
    for sleep in [150u64, 1400] {
        for setup in [vec!["SET", "w", "5", "PX", "80"], vec!["PSETEX", "w", "80", "5"]] {
            let mut steps = vec![c(1, &setup), c(0, &["WATCH", "w"]), Step::Sleep(sleep)];
            steps.extend(tail());
            out.push(steps);
        }
        // EXPIRE on a list, then the deadline passes
        let mut steps = vec![c(1, &["RPUSH", "w", "a"]), c(1, &["PEXPIRE", "w", "80"]), c(0, &["WATCH", "w"]), Step::Sleep(sleep)];
        steps.extend(tail());
        out.push(steps);
    }
    // UNWATCH / DISCARD / an earlier EXEC forget the watches
    for forget in [vec![vec!["UNWATCH"]], vec![vec!["MULTI"], vec!["DISCARD"]], vec![vec!["MULTI"], vec!["PING"], vec!["EXEC"]]] {
        let mut steps = vec![c(0, &["WATCH", "w"])];
        for f in &forget {
            steps.push(c(0, f));
        }
        steps.push(c(1, &["SET", "w", "changed"]));
        steps.extend(tail());
        out.push(steps);
    }
    // a second watcher of the same key forgets its watch (in every way a watch can be forgotten)
    // between the change and the first watcher's EXEC, or had watched before the change: the
    // evidence of the change belongs to the key, not to the connection that unwatches
    for forget in [vec![vec!["UNWATCH"]], vec![vec!["MULTI"], vec!["DISCARD"]], vec![vec!["MULTI"], vec!["PING"], vec!["EXEC"]], vec![]] {
        for bystander_first in [false, true] {
            let mut steps = vec![c(0, &["WATCH", "w"])];
            if bystander_first {
                steps.push(c(2, &["WATCH", "w"]));
            }
            steps.push(c(1, &["SET", "w", "changed"]));
            if !bystander_first {
                steps.push(c(2, &["WATCH", "w"]));
            }
            if forget.is_empty() {
                steps.push(Step::Reconnect { conn: 2 });
            }
            for f in &forget {
                steps.push(c(2, f));
            }
            steps.extend(tail());
            out.push(steps);
        }
    }
    // watching in one database, changing the same name in another
    let mut steps = vec![c(0, &["SELECT", "3"]), c(0, &["WATCH", "w"]), c(1, &["SELECT", "4"]), c(1, &["SET", "w", "x"])];
    steps.extend(tail());
    out.push(steps);
    let mut steps = vec![c(0, &["SELECT", "3"]), c(0, &["WATCH", "w"]), c(1, &["SELECT", "3"]), c(1, &["SET", "w", "x"])];
    steps.extend(tail());
    out.push(steps);
    out
}

fn history(_max_len: usize) -> BoxedStrategy<Vec<Step>> {
    let (same, other) = shard_mates(b"w");
    let keys = vec![bs("w"), bs("w2"), same, other];
    let k = proptest::sample::select(keys.clone()).boxed();
    let watched = proptest::collection::vec(proptest::sample::select(vec![bs("w"), bs("w2")]), 1..=3);
    let data = crate::gen::mixed_data_cmd(k.clone());
    let setup = proptest::collection::vec(crate::gen::mixed_data_cmd(proptest::sample::select(vec![bs("w"), bs("w2")]).boxed()), 0..4);
    let inter = proptest::collection::vec((1usize..3, prop_oneof![6 => data.clone(), 1 => Just(vec![bs("SELECT"), bs("1")]), 1 => Just(vec![bs("SELECT"), bs("0")])], 0u8..4), 0..7);
    let forget = prop_oneof![8 => Just(0u8), 1 => Just(1u8), 1 => Just(2u8), 1 => Just(3u8)];
    (setup, watched, inter, forget)
        .prop_map(|(setup, watched, inter, forget)| {
            let mut steps: Vec<Step> = setup.into_iter().map(|args| Step::Cmd { conn: 1, args }).collect();
            let mut wc = vec![bs("WATCH")];
            wc.extend(watched);
            steps.push(Step::Cmd { conn: 0, args: wc });
            for (conn, args, via) in inter {
                match via {
                    // wrapped in the other connection's own transaction (SELECT inside MULTI is
                    // property C18's subject, not generated here)
                    1 if crate::model::upper(&args[0]) != "SELECT" => {
                        steps.push(c(conn, &["MULTI"]));
                        steps.push(Step::Cmd { conn, args });
                        steps.push(c(conn, &["EXEC"]));
                    }
                    // through a script
                    2 if !matches!(crate::model::upper(&args[0]).as_str(), "SELECT" | "KEYS" | "DBSIZE") => {
                        let mut a = vec![bs("EVAL"), WRAP_SCRIPT.to_vec(), bs("0")];
                        a.extend(args);
                        steps.push(Step::Cmd { conn, args: a });
                    }
                    _ => steps.push(Step::Cmd { conn, args }),
                }
            }
            match forget {
                1 => steps.push(c(0, &["UNWATCH"])),
                2 => {
                    steps.push(c(0, &["MULTI"]));
                    steps.push(c(0, &["DISCARD"]));
                }
                3 => {
                    steps.push(c(0, &["MULTI"]));
                    steps.push(c(0, &["EXEC"]));
                }
                _ => {}
            }
            steps.extend(tail());
            steps
        })
        .boxed()
}

fn nontrivial(w: &World) -> bool {
    w.labels.contains("watch-abort") || w.labels.contains("watch-pass")
}

fn excluder(a: &Active, w: &mut World, conn: usize, cm: &Cmd) -> Option<&'static str> {
    super::kf::common_excluder(a, w, conn, cm)
}

pub fn spec() -> HistSpec {
    HistSpec {
        id: "C08",
        rule: "(a) enumerated grid, every tier: ~70 commands (every write command of the server plus reads and writes to same-shard / other-shard keys) x watched-key state {absent, string, list, set, hash, zset, stream, string with TTL} x path {another connection directly, the watching connection before MULTI, another connection inside its own EXEC, a script via redis.call}, plus a blocking pop served to a third client, the key's own deadline passing before and after a sweeper pass, UNWATCH/DISCARD/EXEC forgetting the watches, a second watcher of the same key forgetting its watch (UNWATCH, DISCARD, EXEC, disconnect) before or after the change, and equal names in other databases; (b) random histories: WATCH 1..3 keys, 0..6 commands by two other connections on watched / same-shard / other-shard keys and other databases, optionally UNWATCH/DISCARD/EXEC, then MULTI; SET probe; EXEC; EXISTS probe. Oracle: the model decides 'state of a watched key changed' => EXEC must be nil and probe absent; 'no write addressed a watched key' => EXEC must return the array and probe exist; a write that left the state equal is not asserted either way. Non-trivial = the EXEC outcome was asserted (must-abort or must-execute); distinct by hash of the step list",
        history: Some(history),
        max_len: 12,
        quick_cases: 3000,
        thorough_cases: 60000,
        nontrivial,
        probes: vec![(super::kf::K_LAX_INT, super::kf::probe_lax_int)],
        excluder,
        fixed_cases: grid,
        label_floors: vec![("watch-abort", 300), ("watch-pass", 300), ("via-script", 100)],
        assumptions: vec!["commands issued through the wrapper script are applied to the model with lenient reply checking (their conversion is property C12's business)", "must-execute is asserted only when no write command addressed a watched key"],
        nconns: 3,
        timed: true,
        lenient_scripts: true,
        dump_dbs: vec![0, 1, 3, 4],
        ..Default::default()
    }
}
