//! C09 — an RDB snapshot restores exactly the dataset that was saved.
//! A: through the server (SAVE, kill -9, downtime, restart on the same directory).
//! B: library level (RdbEngine::save / load into a fresh engine), same generators.

use crate::client::{Client, Reply};
use crate::dataset::{self, Dataset, Spec, Ttl};
use crate::driver::{hash_debug, CaseResult, Evidence, LoopCfg, Tier, Verdict};
use crate::dump::{self, Dump};
use crate::model::Bytes;
use crate::resp::Frame;
use crate::sut::{Server, ServerOpts};
use ferrous::storage::{RdbConfig, RdbEngine};
use ferrous::StorageEngine;
use proptest::prelude::*;
use serde_json::{json, Value};
use std::collections::BTreeMap;
use std::sync::{Arc, Mutex};
use std::time::{Duration, Instant};

#[derive(Clone, Debug)]
pub struct Case {
    pub data: Dataset,
    pub downtime_ms: u64,
    /// after a first SAVE of the loaded dataset: modifications through paths that are easy to
    /// forget when "has anything changed?" is tracked, then the SAVE that is judged
    pub post_ops: Vec<u8>,
}

fn case(max_keys: usize) -> BoxedStrategy<Case> {
    (dataset::dataset(max_keys, vec![0, 0, 0, 1, 3, 15]), proptest::sample::select(vec![0u64, 0, 100, 400, 900, 1500]), prop_oneof![2 => Just(vec![]), 1 => proptest::collection::vec(0u8..10, 1..4)])
        .prop_map(|(data, downtime_ms, post_ops)| Case { data, downtime_ms, post_ops })
        .boxed()
}

pub const K_MARKER: &str = "K07-rdb-list-with-marker-head-reloads-as-stream";
pub const K_EMPTY_STREAM: &str = "K08-rdb-empty-stream-not-persisted";

fn marker_list(it: &dataset::Item) -> bool {
    matches!(&it.val, Spec::List(v) if v.first().map_or(false, |e| e == dataset::MARKER))
}

/// PTTL of every TTL key with the harness timestamps around each read.
fn pttl_pass(c: &mut Client, data: &Dataset, t0: Instant) -> Result<BTreeMap<(usize, Bytes), (i64, f64, f64)>, String> {
    let mut out = BTreeMap::new();
    let mut cur = usize::MAX;
    for it in data {
        if it.ttl == Ttl::None {
            continue;
        }
        if it.db != cur {
            c.cmd(&[b"SELECT".to_vec(), it.db.to_string().into_bytes()]);
            cur = it.db;
        }
        let a = t0.elapsed().as_secs_f64() * 1000.0;
        let r = c.cmd(&[b"PTTL".to_vec(), it.key.clone()]);
        let b = t0.elapsed().as_secs_f64() * 1000.0;
        match r {
            Reply::Frame(Frame::Int(v)) => {
                out.insert((it.db, it.key.clone()), (v, a, b));
            }
            r => return Err(format!("PTTL -> {:?}", r)),
        }
    }
    Ok(out)
}

fn strip(d: &Dump, drop: &[(usize, Bytes)]) -> Dump {
    let mut d = d.clone();
    for (db, k) in drop {
        if let Some(m) = d.get_mut(db) {
            m.remove(k);
        }
    }
    d
}

fn exec_server(c: &Case, active: &crate::findings::Active) -> CaseResult {
    let data: Dataset = c.data.iter().filter(|it| !(active.has(K_MARKER) && marker_list(it))).cloned().collect();
    let excluded = (c.data.len() - data.len()) as u64;
    let mut server = match Server::start(ServerOpts::default()) {
        Ok(s) => s,
        Err(e) => return CaseResult::infra(e),
    };
    let t0 = Instant::now();
    let mut cl = match server.client() {
        Ok(c) => c,
        Err(e) => return CaseResult::infra(e.to_string()),
    };
    cl.default_timeout = Duration::from_secs(20);
    if let Err(e) = dataset::load_via_client(&mut cl, &data) {
        return CaseResult::fail(format!("loading the dataset: {}", e), "load-refused");
    }
    if !c.post_ops.is_empty() {
        // a first, complete SAVE; then changes made only through the generated paths, on keys of
        // their own in database 0; the second SAVE (below) must write them
        let setup: Vec<Vec<&str>> = vec![vec!["SELECT", "0"], vec!["RPUSH", "post:list", "a", "b", "c", "d", "e", "f"], vec!["SADD", "post:set", "a", "b", "c", "d"], vec!["SET", "post:str", "v"], vec!["HSET", "post:hash", "f", "v"], vec!["ZADD", "post:zset", "1", "a", "2", "b"], vec!["SET", "post:ttl", "v", "EX", "100000"]];
        for cm in &setup {
            let _ = cl.cmd(cm);
        }
        match cl.cmd(&[b"SAVE".as_ref()]) {
            Reply::Frame(Frame::Simple(_)) => {}
            r => return CaseResult::fail(format!("first SAVE -> {:?}", r), "save-refused"),
        }
        for op in &c.post_ops {
            let cmds: Vec<Vec<&str>> = match op {
                0 => vec![vec!["BLPOP", "post:list", "0"]],
                1 => vec![vec!["BRPOP", "post:list", "post:other", "0"]],
                2 => vec![vec!["SPOP", "post:set"]],
                3 => vec![vec!["EVAL", "return redis.call('APPEND', KEYS[1], 'x')", "1", "post:str"]],
                4 => vec![vec!["MULTI"], vec!["HSET", "post:hash", "g", "w"], vec!["EXEC"]],
                5 => vec![vec!["GETSET", "post:str", "w"]],
                6 => vec![vec!["PERSIST", "post:ttl"]],
                7 => vec![vec!["ZPOPMIN", "post:zset"]],
                8 => vec![vec!["RENAME", "post:hash", "post:hash2"], vec!["RENAME", "post:hash2", "post:hash"], vec!["HDEL", "post:hash", "f"]],
                _ => vec![vec!["LTRIM", "post:list", "1", "-1"]],
            };
            for cm in &cmds {
                let _ = cl.cmd(cm);
            }
        }
    }
    let dbs: Vec<usize> = vec![0, 1, 3, 15];
    let d1 = match dump::dump_server(&mut cl, &dbs) {
        Ok(d) => d,
        // a reply of a few megabytes that does not arrive in 20 s on a busy machine says nothing
        // about the snapshot: once more on a fresh connection with two minutes of patience, and
        // if it still does not come the case is inconclusive (liveness is C05's and C06's)
        Err(e) if e.contains("<no reply>") => {
            let mut patient = match server.client() {
                Ok(c) => c,
                Err(e) => return CaseResult::infra(e.to_string()),
            };
            patient.default_timeout = Duration::from_secs(120);
            match dump::dump_server(&mut patient, &dbs) {
                Ok(d) => {
                    cl = patient;
                    d
                }
                Err(e2) => return CaseResult::infra(format!("dump before SAVE: {} / {}", e, e2)),
            }
        }
        Err(e) => return CaseResult::fail(format!("dump before SAVE: {}", e), "dump-failed"),
    };
    let p1 = match pttl_pass(&mut cl, &data, t0) {
        Ok(p) => p,
        Err(e) => return CaseResult::infra(e),
    };
    match cl.cmd(&[b"SAVE".as_ref()]) {
        Reply::Frame(Frame::Simple(s)) if s == b"OK" => {}
        r => return CaseResult::fail(format!("SAVE -> {:?}", r), "save-refused"),
    }
    drop(cl);
    server.kill();
    std::thread::sleep(Duration::from_millis(c.downtime_ms));
    if let Err(e) = server.restart() {
        if e.contains("os error") {
            // the child could not even be spawned: nothing was learnt about the dump
            return CaseResult::infra(format!("restart: {}", e));
        }
        return CaseResult::fail(format!("the server does not start on its own dump: {}", e), "restart-failed");
    }
    let t_ready = t0.elapsed().as_secs_f64() * 1000.0;
    let mut cl = match server.client() {
        Ok(c) => c,
        Err(e) => return CaseResult::infra(e.to_string()),
    };
    cl.default_timeout = Duration::from_secs(20);
    let d2 = match dump::dump_server(&mut cl, &dbs) {
        Ok(d) => d,
        Err(e) if e.contains("<no reply>") => {
            // as before SAVE: patience first, then inconclusive. (TTL keys read this late are
            // judged by their own time windows, which the PTTL pass below measures itself.)
            let mut patient = match server.client() {
                Ok(c) => c,
                Err(e) => return CaseResult::infra(e.to_string()),
            };
            patient.default_timeout = Duration::from_secs(120);
            match dump::dump_server(&mut patient, &dbs) {
                Ok(d) => {
                    cl = patient;
                    d
                }
                Err(e2) => return CaseResult::infra(format!("dump after restart: {} / {}", e, e2)),
            }
        }
        Err(e) => return CaseResult::fail(format!("dump after restart: {}", e), "dump-failed"),
    };
    let p2 = match pttl_pass(&mut cl, &data, t0) {
        Ok(p) => p,
        Err(e) => return CaseResult::infra(e),
    };
    // classify TTL keys: must be absent / must be present / undecided
    let tol = 6.0;
    let mut undecided: Vec<(usize, Bytes)> = Vec::new();
    let mut gone: Vec<(usize, Bytes)> = Vec::new();
    let mut res = CaseResult::pass();
    res.labels = dataset::labels(&data).iter().map(|s| s.to_string()).collect();
    res.labels.push("restart".into());
    res.nontrivial = dataset::nontrivial(&data);
    if excluded > 0 {
        res.excluded.push((K_MARKER.to_string(), excluded));
    }
    res.trace = Some(json!({"keys": data.len(), "downtime_ms": c.downtime_ms, "labels": res.labels, "sample_keys": data.iter().take(4).map(|i| format!("db{} {} {:?}", i.db, crate::resp::show_bytes(&i.key[..i.key.len().min(30)]), i.ttl)).collect::<Vec<_>>()}));
    for (k, (v1, a1, b1)) in &p1 {
        if *v1 < 0 {
            // expired between the value dump and the PTTL pass: not comparable
            undecided.push(k.clone());
            continue;
        }
        let lo = a1 + *v1 as f64;
        let hi = b1 + *v1 as f64 + 1.0;
        let (v2, a2, b2) = p2.get(k).cloned().unwrap_or((-2, t_ready, t_ready));
        if hi + tol < t_ready {
            gone.push(k.clone());
            if v2 != -2 {
                res.verdict = Verdict::Fail { what: format!("key {} (db {}) had its deadline at most {:.0} ms after start, the restart finished at {:.0} ms, but the key is back with PTTL {}", crate::resp::show_bytes(&k.1), k.0, hi, t_ready, v2), sig: "expired-key-resurrected".into() };
                return res;
            }
            res.labels.push("deadline-passed-during-downtime".into());
        } else if lo - tol > b2 {
            if v2 < 0 {
                res.verdict = Verdict::Fail { what: format!("key {} (db {}) with {} ms left before SAVE has PTTL {} after the restart", crate::resp::show_bytes(&k.1), k.0, v1, v2), sig: if v2 == -1 { "ttl-lost".into() } else { "ttl-key-lost".into() } };
                return res;
            }
            let exp_lo = lo - b2 - tol;
            let exp_hi = hi - a2 + tol;
            if (v2 as f64) < exp_lo || (v2 as f64) > exp_hi {
                res.verdict = Verdict::Fail { what: format!("key {} (db {}): PTTL {} before SAVE, {} after the restart; the clock allows [{:.0}, {:.0}]", crate::resp::show_bytes(&k.1), k.0, v1, v2, exp_lo, exp_hi), sig: "ttl-shifted".into() };
                return res;
            }
            res.labels.push("ttl-preserved".into());
        } else {
            undecided.push(k.clone());
        }
    }
    // values: everything except undecided keys; keys that had to expire must be absent
    let mut drop_keys = undecided.clone();
    drop_keys.extend(gone.iter().cloned());
    let e1 = strip(&d1, &drop_keys);
    let e2 = strip(&d2, &undecided);
    // short-TTL keys that expired between D1 and the save are legitimately absent: treat keys whose
    // TTL was short as undecided unless classified above
    if let Some(diff) = dump::diff(&e1, &e2) {
        res.verdict = Verdict::Fail { what: format!("dataset after SAVE + restart differs from the dataset before: {}", diff), sig: "value-mismatch".into() };
    }
    res
}

// ---------- B: in-process ----------

pub struct Lib {
    pub src: Arc<StorageEngine>,
    pub dst: Arc<StorageEngine>,
    pub dir: std::path::PathBuf,
}

impl Lib {
    pub fn new(tag: &str) -> Lib {
        Lib { src: StorageEngine::new(), dst: StorageEngine::new(), dir: crate::sut::fresh_dir(tag) }
    }
    pub fn rdb(&self, name: &str) -> RdbEngine {
        RdbEngine::new(RdbConfig { auto_save: false, save_rules: vec![], compress_strings: false, filename: name.to_string(), dir: self.dir.display().to_string() })
    }
}

impl Drop for Lib {
    fn drop(&mut self) {
        let _ = std::fs::remove_dir_all(&self.dir);
    }
}

/// Compare two engine dumps; TTLs within `tol_ms` (the second was read `later_ms` after the first).
pub fn diff_engine_dumps(a: &Dump, b: &Dump, later_ms: f64, tol_ms: f64) -> Option<String> {
    if let Some(d) = dump::diff(a, b) {
        return Some(d);
    }
    for (db, m) in a {
        for (k, e) in m {
            if let (Some(t1), Some(t2)) = (e.pttl, b.get(db).and_then(|x| x.get(k)).and_then(|x| x.pttl)) {
                let exp = t1 as f64 - later_ms;
                if (t2 as f64) < exp - tol_ms || (t2 as f64) > t1 as f64 + tol_ms {
                    return Some(format!("db {} key \"{}\": {} ms to live before the save, {} ms after the load {:.0} ms later", db, crate::resp::show_bytes(k), t1, t2, later_ms));
                }
            }
        }
    }
    None
}

fn exec_lib(lib: &mut Lib, data_all: &Dataset, active: &crate::findings::Active) -> CaseResult {
    let data: Dataset = data_all.iter().filter(|it| !(active.has(K_MARKER) && marker_list(it))).cloned().map(|mut it| {
        // short TTLs are the server-level check's business: here nothing expires
        if let Ttl::Ms(ms) = it.ttl { if ms < 10_000 { it.ttl = Ttl::Ms(1_000_000 + ms); } }
        it
    }).collect();
    dataset::flush_engine(&lib.src);
    dataset::flush_engine(&lib.dst);
    if let Err(e) = dataset::load_into_engine(&lib.src, &data) {
        return CaseResult::fail(e, "load-refused");
    }
    let rdb = lib.rdb("lib.rdb");
    let t = Instant::now();
    let d1 = match dataset::dump_engine(&lib.src) {
        Ok(d) => d,
        Err(e) => return CaseResult::infra(e),
    };
    if let Err(e) = rdb.save(&lib.src) {
        return CaseResult::fail(format!("save failed: {}", e), "save-refused");
    }
    if let Err(e) = rdb.load(&lib.dst) {
        return CaseResult::fail(format!("load of a just-written dump failed: {}", e), "load-failed");
    }
    let d2 = match dataset::dump_engine(&lib.dst) {
        Ok(d) => d,
        Err(e) => return CaseResult::infra(e),
    };
    let later = t.elapsed().as_secs_f64() * 1000.0;
    let mut res = CaseResult::pass();
    res.labels = dataset::labels(&data).iter().map(|s| s.to_string()).collect();
    res.labels.push("library-roundtrip".into());
    res.nontrivial = dataset::nontrivial(&data);
    let exp = dataset::expected_dump(&data);
    if let Some(d) = dump::diff(&exp, &d1) {
        return CaseResult::infra(format!("source engine does not hold the generated dataset: {}", d));
    }
    if let Some(d) = diff_engine_dumps(&d1, &d2, later, 5.0) {
        res.verdict = Verdict::Fail { what: format!("save + load changed the dataset: {}", d), sig: "value-mismatch".into() };
    }
    res
}

fn case2j(c: &Case) -> Value {
    json!({"kind": "restart", "downtime_ms": c.downtime_ms, "post_ops": c.post_ops, "summary": data2j(&c.data), "dataset": dataset::to_json(&c.data)})
}

pub fn data2j(d: &Dataset) -> Value {
    // compact, regenerable description (full values can be large): kept small on purpose
    Value::Array(
        d.iter()
            .map(|it| {
                let (ty, n) = match &it.val {
                    Spec::Str(b) => ("string", b.len()),
                    Spec::List(v) => ("list", v.len()),
                    Spec::Set(v) => ("set", v.len()),
                    Spec::Hash(v) => ("hash", v.len()),
                    Spec::ZSet(v) => ("zset", v.len()),
                    Spec::Stream(v) => ("stream", v.len()),
                };
                let first = match &it.val {
                    Spec::Str(b) => crate::resp::show_bytes(&b[..b.len().min(40)]),
                    Spec::List(v) => v.first().map(|b| crate::resp::show_bytes(&b[..b.len().min(40)])).unwrap_or_default(),
                    Spec::Set(v) => v.iter().next().map(|b| crate::resp::show_bytes(&b[..b.len().min(40)])).unwrap_or_default(),
                    Spec::Hash(v) => v.iter().next().map(|(a, _)| crate::resp::show_bytes(&a[..a.len().min(40)])).unwrap_or_default(),
                    Spec::ZSet(v) => v.iter().next().map(|(a, s)| format!("{} {}", crate::resp::show_bytes(&a[..a.len().min(40)]), s)).unwrap_or_default(),
                    Spec::Stream(v) => v.first().map(|(id, _)| format!("{}-{}", id.0, id.1)).unwrap_or_default(),
                };
                json!({"db": it.db, "key": crate::driver::b2j(&it.key[..it.key.len().min(80)]), "key_len": it.key.len(), "type": ty, "len": n, "first": first, "ttl": format!("{:?}", it.ttl)})
            })
            .collect(),
    )
}

fn probe(active_id: &str) -> bool {
    // both known findings are probed through the library round trip
    let lib = Lib::new("c09probe");
    let e = &lib.src;
    match active_id {
        K_MARKER => {
            let _ = e.rpush(0, b"probe".to_vec(), vec![dataset::MARKER.to_vec(), b"x".to_vec(), b"0".to_vec()]);
        }
        _ => {
            let mut f = std::collections::HashMap::new();
            f.insert(b"f".to_vec(), b"v".to_vec());
            let _ = e.xadd_with_id(0, b"probe".to_vec(), ferrous::storage::stream::StreamId::new(1, 1), f);
            let _ = e.xdel(0, b"probe", vec![ferrous::storage::stream::StreamId::new(1, 1)]);
        }
    }
    let rdb = lib.rdb("probe.rdb");
    if rdb.save(&lib.src).is_err() || rdb.load(&lib.dst).is_err() {
        return true;
    }
    match (dataset::dump_engine(&lib.src), dataset::dump_engine(&lib.dst)) {
        (Ok(a), Ok(b)) => dump::diff(&a, &b).is_some(),
        _ => true,
    }
}

pub fn run(tier: Tier, seed: u64, replay: Option<Value>) -> i32 {
    let ev = Mutex::new(Evidence::new(
        "C09",
        tier,
        seed,
        "exploration",
        "generated datasets of 1..9 keys in databases 0/1/3/15: all six value types; string lengths and element counts at {0, 1, 2, 63, 64, 65, 300, 16383, 16384, 16385, 65535, 65536, 70000} (one big value per dataset); binary / empty / 64-byte / UTF-8 elements and names, names and values equal to the internal stream marker; scores +-inf, -0.0, subnormal, 1e308, equal scores; stream IDs at u64 edges with 1..8 fields; TTL none / 1000 s / 2^31 ms, 2^32 ms, 60 days, 10 and 100 years / 250..2500 ms. A: load through a client; in a third of the cases a first SAVE, then modifications through paths a change counter can forget (immediate BLPOP/BRPOP, SPOP, script, MULTI/EXEC, GETSET, PERSIST, ZPOPMIN, RENAME, LTRIM); then canonical dump + PTTL of every TTL key with clock brackets, SAVE (must answer OK), kill -9, generated downtime 0..1.5 s, restart on the same directory, dump again: same keys per database, equal values (list order exact, score bits up to -0/0, stream IDs and field maps), PTTL within the interval the harness clock allows (+-6 ms), keys whose deadline provably passed before the restart finished must be absent, keys without TTL must have none. B: the same datasets (TTLs made long) through RdbEngine::save and load into a fresh engine, compared through the storage API. Non-trivial = >= 3 value types, a multi-byte length encoding and a TTL key, actually reloaded; distinct by dataset hash",
    ));
    let findings = crate::findings::Findings::load();
    let mut active = crate::findings::Active::default();
    if replay.is_none() {
        for f in findings.open_for("C09") {
            if (f.id == K_MARKER || f.id == K_EMPTY_STREAM) && probe(&f.id) {
                ev.lock().unwrap().known(&f.id, &f.what_fails);
                active.ids.insert(f.id.clone());
            }
        }
    }
    if let Some(r) = replay {
        let c = r.get("case").unwrap_or(&r);
        let data = dataset::from_json(c.get("dataset").unwrap_or(&Value::Null));
        let res = if c.get("kind").and_then(|k| k.as_str()) == Some("library") {
            let mut lib = Lib::new("c09replay");
            exec_lib(&mut lib, &data, &active)
        } else {
            exec_server(&Case { data, downtime_ms: c.get("downtime_ms").and_then(|x| x.as_u64()).unwrap_or(0), post_ops: c.get("post_ops").and_then(|x| x.as_array()).map(|a| a.iter().filter_map(|v| v.as_u64().map(|v| v as u8)).collect()).unwrap_or_default() }, &active)
        };
        return match res.verdict {
            Verdict::Pass => {
                crate::outln!("replay: PASS");
                0
            }
            Verdict::Fail { what, sig } => {
                crate::outln!("replay: FAIL [{}] {}", sig, what);
                1
            }
            Verdict::Infra(m) => {
                crate::outln!("replay: inconclusive {}", m);
                2
            }
        };
    }
    // A
    let cfg = LoopCfg { cases: tier.pick(150, 3000), workers: crate::workers(), max_shrink_execs: 60, max_violations: std::env::var("FVH_MAX_VIOL").ok().and_then(|s| s.parse().ok()).unwrap_or(8) };
    let active_ref = &active;
    crate::driver::run_cases(&ev, &cfg, || case(8), |_| Ok(()), |_: &mut (), c: &Case| exec_server(c, active_ref), case2j);
    // B
    let cfg = LoopCfg { cases: tier.pick(1500, 40000), workers: 6, max_shrink_execs: 200, max_violations: 8 };
    crate::driver::run_cases(&ev, &cfg, || dataset::dataset(8, vec![0, 0, 1, 7, 15]), |i| Ok(Lib::new(&format!("c09lib{}", i))), |lib: &mut Lib, d: &Dataset| exec_lib(lib, d, active_ref), |d| json!({"kind": "library", "summary": data2j(d), "dataset": dataset::to_json(d)}));
    let e = ev.lock().unwrap();
    let _ = hash_debug(&0);
    let _ = e.write();
    e.exit_code()
}
