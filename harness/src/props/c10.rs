//! C10 — the dump on disk is always a complete, loadable, per-key-consistent snapshot.
//! In-process on the library with the cfg(ferrous_verif) hooks. Level: fault_enumeration.
//!
//! A. fail-the-nth-write, exhaustively over the write calls of a save (error and panic kinds,
//!    SAVE and BGSAVE): the previous dump stays byte-identical, the in-progress flag clears, a
//!    later save works and loads back to the current dataset.
//! B. save racing a writer with the race owned by the harness (sync points before a key is
//!    read, between its value and TTL reads, inside the sorted-set encoder): the produced file
//!    loads, and every key in it holds a (value, TTL) state that key actually went through.
//! C. loader robustness: every prefix and every single-byte substitution of valid dumps (and
//!    generated multi-byte damage) under catch_unwind, a watchdog and the counting allocator.

use super::c09::Lib;
use crate::dataset::{self, Dataset, Item, Spec, Ttl};
use crate::driver::{hash_debug, seeded_runner, Evidence, Tier};
use crate::dump::{self, DVal};
use ferrous::storage::engine::GetResult;
use ferrous::storage::{RdbConfig, RdbEngine};
use ferrous::StorageEngine;
use proptest::prelude::*;
use proptest::strategy::ValueTree;
use serde_json::{json, Value};
use std::sync::Arc;
use std::time::{Duration, Instant};

fn wait_flag_clear(rdb: &RdbEngine, max: Duration) -> bool {
    let d = Instant::now() + max;
    while Instant::now() < d {
        if !rdb.is_bgsave_in_progress() {
            return true;
        }
        std::thread::sleep(Duration::from_millis(1));
    }
    false
}

// ---------------------------------------------------------------------------------------
// A
// ---------------------------------------------------------------------------------------

pub struct FaultStats {
    pub writes: u64,
    pub points: u64,
    pub exhaustive: bool,
    pub inside_body: u64,
}

/// Returns Err((what, signature, n)) on the first violation.
pub fn fault_case(lib: &mut Lib, before: &Dataset, after: &Dataset, sample: &[u64]) -> Result<FaultStats, (String, String, u64)> {
    let e = lib.src.clone();
    dataset::flush_engine(&e);
    dataset::load_into_engine(&e, before).map_err(|x| (x, "infra".to_string(), 0))?;
    let rdb = lib.rdb("fault.rdb");
    let path = lib.dir.join("fault.rdb");
    let _ = std::fs::remove_file(&path);
    ferrous::verif::rdb_fail_nth_write(0, false);
    rdb.save(&e).map_err(|x| (format!("initial save failed: {}", x), "infra".to_string(), 0))?;
    let b0 = std::fs::read(&path).map_err(|x| (x.to_string(), "infra".to_string(), 0))?;
    // mutate the dataset so that a new dump differs from B0
    dataset::flush_engine(&e);
    dataset::load_into_engine(&e, after).map_err(|x| (x, "infra".to_string(), 0))?;
    // count the write calls of a save of the new dataset (into another file)
    let probe = lib.rdb("count.rdb");
    ferrous::verif::rdb_reset_writes();
    probe.save(&e).map_err(|x| (format!("counting save failed: {}", x), "infra".to_string(), 0))?;
    let w = ferrous::verif::rdb_writes();
    let header_writes = 8; // magic, version, aux fields: before any key
    let points: Vec<u64> = if w <= 3000 {
        (1..=w).collect()
    } else {
        let mut p: Vec<u64> = (1..=100).collect();
        p.extend((w - 99)..=w);
        p.extend(sample.iter().take(100).map(|s| 101 + s % (w - 200)));
        p.sort();
        p.dedup();
        p
    };
    let mut inside = 0;
    for (i, n) in points.iter().enumerate() {
        // alternate SAVE / BGSAVE and error / panic kinds so that every point meets each over time
        let kind_panic = i % 4 == 3;
        let via_bgsave = i % 2 == 1 || kind_panic;
        ferrous::verif::rdb_fail_nth_write(*n, kind_panic);
        if via_bgsave {
            match rdb.bgsave(e.clone()) {
                Ok(()) => {}
                Err(x) => {
                    ferrous::verif::rdb_fail_nth_write(0, false);
                    return Err((format!("BGSAVE refused although no background save is running (after {} injected failures): {}", i, x), "bgsave-refused".into(), *n));
                }
            }
            if !wait_flag_clear(&rdb, Duration::from_secs(5)) {
                ferrous::verif::rdb_fail_nth_write(0, false);
                return Err((
                    format!("after a background save that {} at write {} of {}, the in-progress flag never clears: every later BGSAVE is refused", if kind_panic { "panicked" } else { "failed" }, n, w),
                    if kind_panic { "flag-stuck-after-panic".into() } else { "flag-stuck-after-error".into() },
                    *n,
                ));
            }
        } else {
            let r = rdb.save(&e);
            if r.is_ok() {
                ferrous::verif::rdb_fail_nth_write(0, false);
                return Err((format!("save reported success although write {} of {} failed", n, w), "failure-not-reported".into(), *n));
            }
        }
        ferrous::verif::rdb_fail_nth_write(0, false);
        match std::fs::read(&path) {
            Ok(now) if now == b0 => {}
            Ok(now) => {
                return Err((
                    format!("a save that failed at write {} of {} ({}) changed the dump on disk: {} bytes before, {} bytes now", n, w, if via_bgsave { "BGSAVE" } else { "SAVE" }, b0.len(), now.len()),
                    "previous-dump-damaged".into(),
                    *n,
                ))
            }
            Err(x) => return Err((format!("a save that failed at write {} of {} removed the dump on disk: {}", n, w, x), "previous-dump-damaged".into(), *n)),
        }
        if *n > header_writes && *n < w {
            inside += 1;
        }
    }
    // The same at the level of the file: failures of the operating-system writes underneath the
    // writer's buffer, the last of which is made by the final flush. All of them are enumerated
    // (one per buffer-full of dump).
    ferrous::verif::rdb_file_reset_writes();
    probe.save(&e).map_err(|x| (format!("counting save failed: {}", x), "infra".to_string(), 0))?;
    let fw = ferrous::verif::rdb_file_writes();
    for n in 1..=fw {
        ferrous::verif::rdb_file_fail_nth_write(n);
        let via_bgsave = n % 2 == 0;
        let reported = if via_bgsave {
            if let Err(x) = rdb.bgsave(e.clone()) {
                ferrous::verif::rdb_file_fail_nth_write(0);
                return Err((format!("BGSAVE refused although no background save is running: {}", x), "bgsave-refused".into(), n));
            }
            if !wait_flag_clear(&rdb, Duration::from_secs(5)) {
                ferrous::verif::rdb_file_fail_nth_write(0);
                return Err((format!("after a background save whose file write {} of {} failed, the in-progress flag never clears", n, fw), "flag-stuck-after-error".into(), n));
            }
            true
        } else {
            rdb.save(&e).is_err()
        };
        ferrous::verif::rdb_file_fail_nth_write(0);
        if !reported {
            return Err((format!("save reported success although file write {} of {} (the {}) failed", n, fw, if n == fw { "final flush of the buffered tail" } else { "flush of a full buffer" }), "failure-not-reported".into(), n));
        }
        match std::fs::read(&path) {
            Ok(now) if now == b0 => {}
            Ok(now) => {
                return Err((
                    format!("a save whose file write {} of {} failed ({}) changed the dump on disk: {} bytes before, {} bytes now", n, fw, if via_bgsave { "BGSAVE" } else { "SAVE" }, b0.len(), now.len()),
                    "previous-dump-damaged".into(),
                    n,
                ))
            }
            Err(x) => return Err((format!("a save whose file write {} of {} failed removed the dump on disk: {}", n, fw, x), "previous-dump-damaged".into(), n)),
        }
    }
    // afterwards a save works and restores the current dataset
    rdb.save(&e).map_err(|x| (format!("after the injected failures a plain save fails: {}", x), "later-save-fails".to_string(), 0))?;
    dataset::flush_engine(&lib.dst);
    rdb.load(&lib.dst).map_err(|x| (format!("the dump written after the injected failures does not load: {}", x), "later-save-unloadable".to_string(), 0))?;
    let d1 = dataset::dump_engine(&e).map_err(|x| (x, "infra".to_string(), 0))?;
    let d2 = dataset::dump_engine(&lib.dst).map_err(|x| (x, "infra".to_string(), 0))?;
    if let Some(d) = dump::diff(&d1, &d2) {
        return Err((format!("the dump written after the injected failures differs from the dataset: {}", d), "later-save-wrong".into(), 0));
    }
    Ok(FaultStats { writes: w, points: points.len() as u64 + fw, exhaustive: w <= 3000, inside_body: inside })
}

// ---------------------------------------------------------------------------------------
// B
// ---------------------------------------------------------------------------------------

#[derive(Clone, Debug)]
pub enum Mut {
    Grow,
    Shrink,
    Delete,
    ReplaceString,
    ReplaceOtherType,
    Persist,
    ExpireLong,
    DeleteAndRecreate,
    GrowThenPersist,
}

#[derive(Clone, Debug)]
pub struct Race {
    pub ty: usize,
    pub with_ttl: bool,
    pub gate: usize,
    pub muts: Vec<Mut>,
    pub bystanders: usize,
}

const GATES: [&str; 3] = ["rdb:before_key", "rdb:between_value_and_ttl", "rdb:zset_after_len"];

fn race() -> BoxedStrategy<Race> {
    let m = proptest::sample::select(vec![Mut::Grow, Mut::Shrink, Mut::Delete, Mut::ReplaceString, Mut::ReplaceOtherType, Mut::Persist, Mut::ExpireLong, Mut::DeleteAndRecreate, Mut::GrowThenPersist]);
    (0usize..6, any::<bool>(), 0usize..3, proptest::collection::vec(m, 1..4), 0usize..4)
        .prop_map(|(ty, with_ttl, gate, muts, bystanders)| {
            // the sorted-set gate only exists for sorted sets
            let ty = if gate == 2 { 4 } else { ty };
            Race { ty, with_ttl, gate, muts, bystanders }
        })
        .boxed()
}

const K: &[u8] = b"raced-key";

fn state_of(e: &Arc<StorageEngine>, db: usize) -> Option<(DVal, bool)> {
    match e.get(db, K).ok()? {
        GetResult::Found(v) => {
            let ttl = e.ttl(db, K).ok()?;
            Some((dataset::value_dval(&v), ttl.is_some()))
        }
        _ => None,
    }
}

fn create_typed(e: &Arc<StorageEngine>, db: usize, ty: usize, n: usize) {
    let elems: Vec<Vec<u8>> = (0..n).map(|i| format!("m{}", i).into_bytes()).collect();
    match ty {
        0 => e.set_string(db, K.to_vec(), format!("value-{}", n).into_bytes()).unwrap(),
        1 => {
            e.rpush(db, K.to_vec(), elems).unwrap();
        }
        2 => {
            e.sadd(db, K.to_vec(), elems).unwrap();
        }
        3 => {
            e.hset(db, K.to_vec(), elems.iter().map(|m| (m.clone(), b"v".to_vec())).collect()).unwrap();
        }
        4 => {
            for (i, m) in elems.iter().enumerate() {
                e.zadd(db, K.to_vec(), m.clone(), i as f64).unwrap();
            }
        }
        _ => {
            for i in 0..n {
                let mut f = std::collections::HashMap::new();
                f.insert(b"f".to_vec(), format!("{}", i).into_bytes());
                e.xadd_with_id(db, K.to_vec(), ferrous::storage::stream::StreamId::new(i as u64 + 1, 1), f).unwrap();
            }
        }
    }
}

fn apply_mut(e: &Arc<StorageEngine>, db: usize, ty: usize, m: &Mut, step: usize) {
    let extra = format!("x{}", step).into_bytes();
    let exists = matches!(e.get(db, K), Ok(GetResult::Found(_)));
    let cur_ty = match e.get(db, K) {
        Ok(GetResult::Found(v)) => match v {
            ferrous::storage::Value::String(_) => 0,
            ferrous::storage::Value::List(_) => 1,
            ferrous::storage::Value::Set(_) => 2,
            ferrous::storage::Value::Hash(_) => 3,
            ferrous::storage::Value::SortedSet(_) => 4,
            ferrous::storage::Value::Stream(_) => 5,
        },
        _ => ty,
    };
    match m {
        Mut::Grow | Mut::GrowThenPersist => {
            if !exists {
                create_typed(e, db, ty, 2);
            } else {
                match cur_ty {
                    0 => {
                        let _ = e.append(db, K.to_vec(), extra.clone());
                    }
                    1 => {
                        let _ = e.rpush(db, K.to_vec(), vec![extra.clone()]);
                    }
                    2 => {
                        let _ = e.sadd(db, K.to_vec(), vec![extra.clone()]);
                    }
                    3 => {
                        let _ = e.hset(db, K.to_vec(), vec![(extra.clone(), b"v".to_vec())]);
                    }
                    4 => {
                        let _ = e.zadd(db, K.to_vec(), extra.clone(), 100.0 + step as f64);
                    }
                    _ => {
                        let mut f = std::collections::HashMap::new();
                        f.insert(b"f".to_vec(), extra.clone());
                        let _ = e.xadd_with_id(db, K.to_vec(), ferrous::storage::stream::StreamId::new(1000 + step as u64, 1), f);
                    }
                }
            }
            if matches!(m, Mut::GrowThenPersist) {
                let _ = e.persist(db, K);
            }
        }
        Mut::Shrink => match cur_ty {
            0 => {
                let _ = e.set_string(db, K.to_vec(), b"s".to_vec());
            }
            1 => {
                let _ = e.lpop(db, K);
            }
            2 => {
                let _ = e.spop(db, K.to_vec(), 1);
            }
            3 => {
                let _ = e.hdel(db, K.to_vec(), &[b"m0".to_vec()]);
            }
            4 => {
                let _ = e.zrem(db, K, b"m0");
                let _ = e.zrem(db, K, b"m1");
            }
            _ => {
                let _ = e.xtrim(db, K, 1);
            }
        },
        Mut::Delete => {
            let _ = e.delete(db, K);
        }
        Mut::ReplaceString => {
            let _ = e.set_string(db, K.to_vec(), format!("replaced-{}", step).into_bytes());
        }
        Mut::ReplaceOtherType => {
            let _ = e.delete(db, K);
            create_typed(e, db, (cur_ty + 1 + step) % 5, 3);
        }
        Mut::Persist => {
            let _ = e.persist(db, K);
        }
        Mut::ExpireLong => {
            let _ = e.expire(db, K, Duration::from_secs(5000 + step as u64));
        }
        Mut::DeleteAndRecreate => {
            let _ = e.delete(db, K);
            create_typed(e, db, ty, 4);
        }
    }
}

pub fn race_case(lib: &mut Lib, r: &Race) -> Result<bool, (String, String)> {
    let e = lib.src.clone();
    let db = 0;
    dataset::flush_engine(&e);
    for i in 0..r.bystanders {
        let _ = e.set_string(db, format!("bystander{}", i).into_bytes(), b"b".to_vec());
    }
    create_typed(&e, db, r.ty, 5);
    if r.with_ttl {
        let _ = e.expire(db, K, Duration::from_secs(1000));
    }
    let mut states: Vec<Option<(DVal, bool)>> = vec![state_of(&e, db)];
    let rdb = lib.rdb("race.rdb");
    let path = lib.dir.join("race.rdb");
    let _ = std::fs::remove_file(&path);
    let gate = GATES[r.gate];
    ferrous::verif::arm_for(gate, K);
    let e2 = e.clone();
    let rdb2 = rdb.clone();
    let h = std::thread::spawn(move || rdb2.save(&e2));
    let parked = ferrous::verif::wait_parked(gate, Duration::from_secs(3));
    if parked {
        for (i, m) in r.muts.iter().enumerate() {
            apply_mut(&e, db, r.ty, m, i);
            states.push(state_of(&e, db));
        }
    }
    ferrous::verif::disarm_all(gate);
    let saved = h.join();
    match saved {
        Ok(Ok(())) => {}
        Ok(Err(x)) => return Err((format!("save racing a writer failed: {}", x), "racing-save-failed".into())),
        Err(_) => return Err((format!("save racing a writer panicked (gate {}, mutations {:?})", gate, r.muts), "racing-save-panicked".into())),
    }
    dataset::flush_engine(&lib.dst);
    if let Err(x) = rdb.load(&lib.dst) {
        return Err((format!("the dump produced while {:?} ran at {} does not load: {}", r.muts, gate, x), "racing-dump-unloadable".into()));
    }
    let loaded = match lib.dst.get(db, K) {
        Ok(GetResult::Found(v)) => Some((dataset::value_dval(&v), lib.dst.ttl(db, K).ok().flatten().is_some())),
        _ => None,
    };
    // bystanders must all be there
    for i in 0..r.bystanders {
        if !matches!(lib.dst.get(db, format!("bystander{}", i).as_bytes()), Ok(GetResult::Found(_))) {
            return Err((format!("a key that nobody touched is missing from the dump written while {:?} ran at {}", r.muts, gate), "bystander-lost".into()));
        }
    }
    let ok = states.iter().any(|s| match (s, &loaded) {
        (None, None) => true,
        (Some((v, t)), Some((lv, lt))) => {
            t == lt
                && match (v, lv) {
                    (DVal::ZSet(a), DVal::ZSet(b)) => a.len() == b.len() && a.iter().zip(b).all(|(x, y)| x.0 == y.0 && x.1 == y.1),
                    _ => v == lv,
                }
        }
        _ => false,
    });
    if !ok {
        let show = |s: &Option<(DVal, bool)>| match s {
            None => "absent".to_string(),
            Some((v, t)) => format!("{}{}", format!("{:?}", v).chars().take(120).collect::<String>(), if *t { " +TTL" } else { " no TTL" }),
        };
        return Err((
            format!(
                "save parked at {} while the key went through {:?}: the dump holds {} which is none of the states the key had: {}",
                gate,
                r.muts,
                show(&loaded),
                states.iter().map(show).collect::<Vec<_>>().join(" | ")
            ),
            format!("torn-snapshot:{}", gate),
        ));
    }
    Ok(parked && states.windows(2).any(|w| w[0] != w[1]))
}

// ---------------------------------------------------------------------------------------
// C
// ---------------------------------------------------------------------------------------

pub fn load_bytes(bytes: &[u8]) -> Result<(), String> {
    // own engine per worker process; the caller flushes
    thread_local! {
        static ENGINE: Arc<StorageEngine> = StorageEngine::new();
        static DIR: std::path::PathBuf = crate::sut::fresh_dir("c10load");
    }
    let dir = DIR.with(|d| d.clone());
    let path = dir.join("in.rdb");
    std::fs::write(&path, bytes).map_err(|e| e.to_string())?;
    let rdb = RdbEngine::new(RdbConfig { auto_save: false, save_rules: vec![], compress_strings: false, filename: "in.rdb".into(), dir: dir.display().to_string() });
    let engine = ENGINE.with(|e| e.clone());
    dataset::flush_engine(&engine);
    let started = Instant::now();
    let (r, max_req, _) = crate::alloc::measure(|| std::panic::catch_unwind(std::panic::AssertUnwindSafe(|| rdb.load(&engine))));
    let took = started.elapsed();
    if r.is_err() {
        return Err("the loader panicked".into());
    }
    let bound = (1 << 20) + 64 * bytes.len();
    if max_req > bound {
        return Err(format!("the loader made a single allocation of {} bytes for a {}-byte file (bound {})", max_req, bytes.len(), bound));
    }
    if took > Duration::from_secs(10) {
        return Err(format!("the loader took {:?}", took));
    }
    Ok(())
}

fn small_dump_bytes(lib: &mut Lib, d: &Dataset) -> Option<Vec<u8>> {
    dataset::flush_engine(&lib.src);
    dataset::load_into_engine(&lib.src, d).ok()?;
    let rdb = lib.rdb("seed.rdb");
    rdb.save(&lib.src).ok()?;
    std::fs::read(lib.dir.join("seed.rdb")).ok()
}

fn small_dataset() -> BoxedStrategy<Dataset> {
    // small values so that the dump stays under 4 KB and every byte position can be damaged
    let ttl = prop_oneof![Just(Ttl::None), Just(Ttl::Ms(1_000_000)), Just(Ttl::Ms(1))];
    let spec = prop_oneof![
        (0usize..70).prop_map(|n| Spec::Str(vec![b'v'; n])),
        (1usize..5).prop_map(|n| Spec::List((0..n).map(|i| format!("e{}", i).into_bytes()).collect())),
        (1usize..5).prop_map(|n| Spec::Set((0..n).map(|i| format!("m{}", i).into_bytes()).collect())),
        (1usize..5).prop_map(|n| Spec::Hash((0..n).map(|i| (format!("f{}", i).into_bytes(), vec![b'x'; i * 30])).collect())),
        (1usize..5).prop_map(|n| Spec::ZSet((0..n).map(|i| (format!("z{}", i).into_bytes(), i as f64 - 1.5)).collect())),
        (1usize..4).prop_map(|n| Spec::Stream((0..n).map(|i| ((i as u64 + 1, 2), vec![(b"f".to_vec(), b"v".to_vec())].into_iter().collect())).collect())),
    ];
    proptest::collection::vec((proptest::sample::select(vec![0usize, 1, 15]), 0u8..6, spec, ttl), 1..6)
        .prop_map(|v| {
            let mut seen = std::collections::BTreeSet::new();
            v.into_iter()
                .map(|(db, k, val, ttl)| Item { db, key: format!("key{}", k).into_bytes(), val, ttl })
                .filter(|i| seen.insert((i.db, i.key.clone())))
                .collect()
        })
        .boxed()
}

pub const K_MARKER: &str = super::c09::K_MARKER;

pub fn run(tier: Tier, seed: u64, replay: Option<Value>) -> i32 {
    std::panic::set_hook(Box::new(|_| {}));
    crate::out::capture_stderr();
    let mut ev = Evidence::new(
        "C10",
        tier,
        seed,
        "fault_enumeration",
        "A: for generated datasets, a complete save gives the bytes B0; the dataset is replaced; the write calls W of a save are counted through the hook; for EVERY n in 1..=W (all n while W <= 3000, else the first and last 100 and a generated sample of 100) the n-th write is made to fail - alternating io::Error in SAVE, io::Error in BGSAVE and a panic in the BGSAVE thread - and after each: the call reports failure, the file at the dump path is byte-identical to B0, the in-progress flag clears and a new BGSAVE is accepted; then the same for EVERY operating-system write underneath the writer's buffer (hook below the BufWriter; the last one is the final flush of the buffered tail), alternating SAVE and BGSAVE; finally a plain save works and loads back to the current dataset. Non-trivial = a failure point strictly inside the body of a dump that differs from B0. B: generated (value type, TTL or not, sync point, 1..3 mutations, bystander keys): the save thread is parked before the key is read / between its value and TTL reads / inside the sorted-set encoder after the length, the mutations (grow, shrink, delete, replace by string, replace by another type, PERSIST, EXPIRE, delete+re-create) are applied recording every (value, TTL presence) state, the thread is released; the file must load and hold for the key one of the recorded states, and all bystanders. Non-trivial = the thread was actually parked and the key's state changed. C: valid dumps of generated small datasets -> every prefix and every single-byte substitution (position x {0x00, 0xFF, ^0x80, +1}) for files <= 4 KB, plus generated multi-byte damage; each loaded under catch_unwind, a 10 s watchdog and the counting allocator: Ok or Err, never a panic, no single allocation above 1 MiB + 64 x file length. Non-trivial = an input that passes the header check. Distinct by (dataset hash, n) / case hash / input hash",
    );
    ev.assumptions.push("crash points are write-call failures of a save (no fsync exists to lose); torn sectors are out of scope".into());
    if let Some(r) = replay {
        let c = r.get("case").unwrap_or(&r);
        let mut lib = Lib::new("c10replay");
        let res: Result<(), String> = match c.get("kind").and_then(|k| k.as_str()) {
            Some("fault") => {
                let before = dataset::from_json(c.get("before").unwrap_or(&Value::Null));
                let after = dataset::from_json(c.get("after").unwrap_or(&Value::Null));
                fault_case(&mut lib, &before, &after, &[]).map(|_| ()).map_err(|e| e.0)
            }
            Some("race") => {
                let muts: Vec<Mut> = c
                    .get("muts")
                    .and_then(|m| m.as_array())
                    .map(|a| {
                        a.iter()
                            .filter_map(|x| match x.as_str()? {
                                "Grow" => Some(Mut::Grow),
                                "Shrink" => Some(Mut::Shrink),
                                "Delete" => Some(Mut::Delete),
                                "ReplaceString" => Some(Mut::ReplaceString),
                                "ReplaceOtherType" => Some(Mut::ReplaceOtherType),
                                "Persist" => Some(Mut::Persist),
                                "ExpireLong" => Some(Mut::ExpireLong),
                                "DeleteAndRecreate" => Some(Mut::DeleteAndRecreate),
                                "GrowThenPersist" => Some(Mut::GrowThenPersist),
                                _ => None,
                            })
                            .collect()
                    })
                    .unwrap_or_default();
                let n = |k: &str| c.get(k).and_then(|x| x.as_u64()).unwrap_or(0) as usize;
                race_case(&mut lib, &Race { ty: n("ty"), with_ttl: c.get("with_ttl").and_then(|x| x.as_bool()).unwrap_or(false), gate: n("gate"), muts, bystanders: n("bystanders") }).map(|_| ()).map_err(|e| e.0)
            }
            _ => load_bytes(&crate::driver::j2b(c.get("bytes").unwrap_or(&Value::Null))),
        };
        return match res {
            Ok(()) => {
                crate::outln!("replay: PASS");
                0
            }
            Err(e) => {
                crate::outln!("replay: FAIL {}", e);
                1
            }
        };
    }
    // the hooks are process-global, so the three parts run in three child processes, in parallel
    let part = std::env::var("FVH_PART").unwrap_or_default();
    if part.is_empty() {
        let exe = crate::own_exe();
        let children: Vec<(String, std::process::Child)> = ["A", "B", "C"]
            .iter()
            .filter_map(|p| {
                let (so, se) = crate::out::child_stdio();
                std::process::Command::new(&exe)
                    .stdout(so)
                    .stderr(se)
                    .arg("C10")
                    .arg("--tier")
                    .arg(tier.name())
                    .env("FVH_PART", p)
                    .env("VERIF_SEED", seed.to_string())
                    .spawn()
                    .ok()
                    .map(|c| (p.to_string(), c))
            })
            .collect();
        let mut code = 0;
        for (p, mut c) in children {
            let st = c.wait().ok().and_then(|s| s.code()).unwrap_or(2);
            if !ev.merge_partial(&format!("/verif/evidence/.C10.part{}.json", p)) {
                ev.infra.push(format!("part {} left no evidence (exit {})", p, st));
            }
            if st == 1 {
                code = 1;
            }
        }
        let _ = ev.write();
        return if code == 1 { 1 } else { ev.exit_code() };
    }
    let findings = crate::findings::Findings::load();
    let marker_known = findings.open_for("C10").iter().any(|f| f.id == K_MARKER);
    let no_marker = |d: Dataset| -> Dataset { d.into_iter().filter(|it| !(marker_known && matches!(&it.val, Spec::List(v) if v.first().map_or(false, |e| e == dataset::MARKER)))).collect() };
    let mut lib = Lib::new("c10");
    let mut runner = seeded_runner(seed, 1000);

    // ---- A ----
    let na = if part != "A" { 0 } else { 1 } * tier.pick(24u64, 400u64);
    let strat = dataset::dataset(6, vec![0, 1, 15]);
    let mut total_points = 0u64;
    let mut all_exhaustive = true;
    let mut viol_a = 0;
    for i in 0..na {
        let before = no_marker(strat.new_tree(&mut runner).unwrap().current());
        let after = no_marker(strat.new_tree(&mut runner).unwrap().current());
        // nothing may expire during the case
        let long = |d: Dataset| -> Dataset { d.into_iter().map(|mut it| { if let Ttl::Ms(ms) = it.ttl { if ms < 100_000 { it.ttl = Ttl::Ms(1_000_000 + ms); } } it }).collect() };
        let (before, after) = (long(before), long(after));
        // all datasets but the first are kept small enough for exhaustive enumeration (W <= 3000)
        let cap = |d: Dataset| -> Dataset {
            if i == 0 { return d; }
            d.into_iter().map(|mut it| {
                match &mut it.val {
                    Spec::Str(b) => b.truncate(400),
                    Spec::List(v) => v.truncate(120),
                    Spec::Set(v) => { let keep: Vec<_> = v.iter().take(120).cloned().collect(); *v = keep.into_iter().collect(); }
                    Spec::Hash(v) => { let keep: Vec<_> = v.iter().take(80).map(|(a, b)| (a.clone(), b.clone())).collect(); *v = keep.into_iter().collect(); }
                    Spec::ZSet(v) => { let keep: Vec<_> = v.iter().take(80).map(|(a, b)| (a.clone(), *b)).collect(); *v = keep.into_iter().collect(); }
                    Spec::Stream(v) => v.truncate(20),
                }
                if it.key.len() > 300 { it.key.truncate(300); }
                it
            }).collect()
        };
        let (before, after) = (cap(before), cap(after));
        let sample: Vec<u64> = (0..300).map(|j| (seed.wrapping_mul(6364136223846793005).wrapping_add(i * 1000 + j)).wrapping_mul(2862933555777941757) >> 20).collect();
        match fault_case(&mut lib, &before, &after, &sample) {
            Ok(st) => {
                ev.evaluations += st.points;
                total_points += st.points;
                all_exhaustive &= st.exhaustive;
                ev.count_label("A-injected-write-failure", st.points);
                ev.count_label("A-dataset", 1);
                if !st.exhaustive {
                    ev.count_label("A-dataset-sampled(W>3000)", 1);
                }
                for n in 0..st.inside_body {
                    ev.nontrivial.insert(hash_debug(&("fault", i, n)));
                }
                if i == 0 {
                    ev.add_sample(json!({"kind": "fault", "writes_per_save": st.writes, "failure_points_tried": st.points, "exhaustive": st.exhaustive, "dataset": super::c09::data2j(&after)}));
                }
            }
            Err((what, sig, n)) => {
                if sig == "infra" {
                    ev.infra.push(what);
                } else if viol_a < 4 {
                    viol_a += 1;
                    ev.violation(&what, &sig, json!({"kind": "fault", "n": n, "before": dataset::to_json(&before), "after": dataset::to_json(&after)}));
                }
                // a stuck flag poisons the engine object: start over with a fresh one
                lib = Lib::new("c10");
            }
        }
    }
    ev.extra.insert("A_failure_points".into(), json!(total_points));
    ev.extra.insert("exhaustive".into(), json!(all_exhaustive));

    // ---- B ----
    let nb = if part != "B" { 0 } else { 1 } * tier.pick(1200u64, 30_000u64);
    let strat = race();
    let mut viol_b = std::collections::BTreeSet::new();
    for _ in 0..nb {
        let mut tree = strat.new_tree(&mut runner).unwrap();
        let r = tree.current();
        ev.evaluations += 1;
        ev.count_label(&format!("B-race@{}", GATES[r.gate]), 1);
        match race_case(&mut lib, &r) {
            Ok(nontrivial) => {
                if nontrivial {
                    if ev.nontrivial.insert(hash_debug(&r)) && ev.samples.len() < 3 {
                        ev.add_sample(json!({"kind": "race", "type": r.ty, "with_ttl": r.with_ttl, "gate": GATES[r.gate], "muts": format!("{:?}", r.muts)}));
                    }
                }
            }
            Err((_, sig)) if viol_b.contains(&sig) || viol_b.len() >= 6 => {}
            Err((what0, sig0)) => {
                // shrink
                let mut best = (r.clone(), what0, sig0.clone());
                let mut n = 0;
                'o: while n < 60 && tree.simplify() {
                    loop {
                        n += 1;
                        let c = tree.current();
                        match race_case(&mut lib, &c) {
                            Err((w, s)) if s == sig0 => {
                                best = (c, w, s);
                                break;
                            }
                            _ => {}
                        }
                        if n >= 60 || !tree.complicate() {
                            break 'o;
                        }
                    }
                }
                viol_b.insert(sig0);
                ev.violation(&best.1, &best.2, json!({"kind": "race", "ty": best.0.ty, "with_ttl": best.0.with_ttl, "gate": best.0.gate, "bystanders": best.0.bystanders, "muts": best.0.muts.iter().map(|m| format!("{:?}", m)).collect::<Vec<_>>()}));
            }
        }
    }

    // ---- C ----
    let nc = if part != "C" { 0 } else { 1 } * tier.pick(40u64, 800u64);
    let strat = small_dataset();
    let mut viol_c = 0;
    let mut inputs = 0u64;
    for i in 0..nc {
        let d = strat.new_tree(&mut runner).unwrap().current();
        let bytes = match small_dump_bytes(&mut lib, &d) {
            Some(b) => b,
            None => continue,
        };
        let mut candidates: Vec<Vec<u8>> = Vec::new();
        for cut in 0..bytes.len() {
            candidates.push(bytes[..cut].to_vec());
        }
        if bytes.len() <= 4096 {
            for pos in 0..bytes.len() {
                for v in [0x00u8, 0xFF, bytes[pos] ^ 0x80, bytes[pos].wrapping_add(1)] {
                    if v != bytes[pos] {
                        let mut b = bytes.clone();
                        b[pos] = v;
                        candidates.push(b);
                    }
                }
            }
        }
        // generated multi-byte damage: splice a length header claiming a lot
        for k in 0..40u64 {
            let x = seed.wrapping_add(i * 131 + k).wrapping_mul(0x9E3779B97F4A7C15);
            let pos = 9 + (x as usize >> 8) % (bytes.len() - 9).max(1);
            let mut b = bytes.clone();
            let claim: &[u8] = match x % 4 {
                0 => &[0x80, 0xFF, 0xFF, 0xFF, 0xFF],
                1 => &[0x80, 0x7F, 0xFF, 0xFF, 0xFF],
                2 => &[0x7F, 0xFF],
                _ => &[0x80, 0x00, 0x10, 0x00, 0x00],
            };
            let end = (pos + claim.len()).min(b.len());
            b.splice(pos..end, claim.iter().cloned());
            candidates.push(b);
        }
        for c in candidates {
            inputs += 1;
            ev.evaluations += 1;
            if c.len() >= 9 && &c[..5] == b"REDIS" {
                ev.nontrivial.insert(hash_debug(&c));
            }
            if let Err(what) = load_bytes(&c) {
                if viol_c < 4 {
                    viol_c += 1;
                    ev.violation(&format!("{} (damaged copy of a {}-byte dump, {} bytes)", what, bytes.len(), c.len()), "loader", json!({"kind": "load", "bytes": crate::driver::b2j(&c)}));
                }
            }
        }
        if i == 0 {
            ev.add_sample(json!({"kind": "load", "valid_dump_bytes": bytes.len(), "dataset": super::c09::data2j(&d)}));
        }
    }
    if part == "C" {
        ev.count_label("C-damaged-dump-loaded", inputs);
    }
    if part != "A" {
        ev.extra.remove("A_failure_points");
        ev.extra.remove("exhaustive");
    }
    let _ = ev.write_partial(&format!("/verif/evidence/.C10.part{}.json", part));
    if ev.violations.is_empty() { 0 } else { 1 }
}
