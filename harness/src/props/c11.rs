//! C11 — the append-only file is a faithful redo log.
//!
//! Generated histories over the full write catalogue through four paths (direct, MULTI/EXEC,
//! scripts, a blocked pop served by another client's push), with SELECT, relative-time and
//! random-outcome commands, against a server started with --appendonly. Oracles:
//! (1) framing at all times: after every step the AOF bytes on disk decode, with the
//!     harness's own decoder, into whole arrays of bulk strings with no partial tail;
//! (2) redo: the frames replayed in file order over one connection into a fresh server give
//!     the same canonical dump (values, TTL presence) in all 16 databases;
//! (3) once, in order: the log without its SELECT frames is a subsequence of the commands
//!     that were executed, in execution order (random-outcome commands in their
//!     outcome-preserving form).

use crate::client::{Client, Reply};
use crate::driver::{CaseResult, Evidence, LoopCfg, Tier, Verdict};
use crate::dump;
use crate::gen::bs;
use crate::model::{show_cmd, upper, Bytes, Cmd};
use crate::resp::{self, Frame};
use crate::runner::{self, Step};
use crate::sut::{Server, ServerOpts};
use proptest::prelude::*;
use proptest::sample::select;
use serde_json::{json, Value};
use std::sync::Mutex;
use std::time::Duration;

fn key() -> BoxedStrategy<Bytes> {
    prop_oneof![6 => select(vec![bs("k"), bs("j"), bs("q")]), 1 => Just(b"bin\xff\x00\r\n".to_vec())].boxed()
}

fn write_cmd() -> BoxedStrategy<Cmd> {
    let k = key();
    let base = crate::gen::mixed_data_cmd(select(vec![bs("k"), bs("j"), bs("q")]).boxed());
    let v = prop_oneof![3 => select(vec![bs("v"), bs("7"), bs("x")]), 1 => select(vec![b"a\r\nb".to_vec(), b"\xff\xfe".to_vec(), bs("")])].boxed();
    let m = select(vec![bs("a"), bs("b"), bs("c")]).boxed();
    prop_oneof![
        20 => base,
        2 => (k.clone(), v.clone()).prop_map(|(k, v)| vec![bs("SET"), k, v]),
        2 => (k.clone(), v.clone()).prop_map(|(k, v)| vec![bs("GETSET"), k, v]),
        2 => (k.clone(), m.clone(), v.clone()).prop_map(|(k, f, v)| vec![bs("HMSET"), k, f, v]),
        2 => (k.clone(),).prop_map(|(k,)| vec![bs("PEXPIRE"), k, bs("10000000")]),
        1 => (k.clone(), v.clone()).prop_map(|(k, v)| vec![bs("SETEX"), k, bs("10000"), v]),
        1 => (k.clone(), v.clone()).prop_map(|(k, v)| vec![bs("PSETEX"), k, bs("10000000"), v]),
        1 => (k.clone(), v.clone()).prop_map(|(k, v)| vec![bs("SET"), k, v, bs("EX"), bs("10000")]),
        1 => (k.clone(), v.clone()).prop_map(|(k, v)| vec![bs("SETRANGE"), k, bs("2"), v]),
        2 => (k.clone(), select(vec![bs("1"), bs("2"), bs("5")])).prop_map(|(k, n)| vec![bs("SPOP"), k, n]),
        2 => k.clone().prop_map(|k| vec![bs("SPOP"), k]),
        1 => k.clone().prop_map(|k| vec![bs("ZPOPMAX"), k]),
        1 => (k.clone(), m.clone()).prop_map(|(k, m)| vec![bs("XADD"), k, bs("*"), m, bs("x")]),
        1 => k.clone().prop_map(|k| vec![bs("XDEL"), k, bs("1-1")]),
        1 => (k.clone(), k.clone()).prop_map(|(a, b)| vec![bs("RENAMENX"), a, b]),
        1 => Just(vec![bs("FLUSHDB")]),
        1 => k.clone().prop_map(|k| vec![bs("BLPOP"), k, bs("0.01")]),
        1 => k.clone().prop_map(|k| vec![bs("BRPOP"), k, bs("0.01")]),
    ]
    .boxed()
}

fn script() -> BoxedStrategy<Cmd> {
    let call = prop_oneof![
        Just(("redis.call('SET', KEYS[1], ARGV[1])", 1)),
        Just(("redis.call('INCR', KEYS[1])", 1)),
        Just(("redis.call('RPUSH', KEYS[1], ARGV[1], ARGV[1])", 1)),
        Just(("redis.call('SADD', KEYS[1], ARGV[1])", 1)),
        Just(("redis.call('HSET', KEYS[1], 'f', ARGV[1])", 1)),
        Just(("redis.call('ZADD', KEYS[1], 3, ARGV[1])", 1)),
        Just(("redis.call('DEL', KEYS[1])", 1)),
        Just(("redis.call('LPOP', KEYS[1])", 1)),
        Just(("redis.pcall('INCR', KEYS[1])", 1)),
        Just(("redis.call('EXPIRE', KEYS[1], 10000)", 1)),
    ];
    (proptest::collection::vec(call, 1..=3), select(vec![bs("k"), bs("j"), bs("q")]), select(vec![bs("v"), bs("9")]))
        .prop_map(|(calls, k, a)| {
            let body: Vec<&str> = calls.iter().map(|c| c.0).collect();
            vec![bs("EVAL"), format!("{}; return 1", body.join("; ")).into_bytes(), bs("1"), k, a]
        })
        .boxed()
}

fn block() -> BoxedStrategy<Vec<Step>> {
    let n = 3usize;
    prop_oneof![
        14 => (0..n, write_cmd()).prop_map(|(conn, args)| vec![Step::Cmd { conn, args }]),
        3 => (0..n, select(vec![bs("0"), bs("1"), bs("5"), bs("15")])).prop_map(|(conn, d)| vec![Step::Cmd { conn, args: vec![bs("SELECT"), d] }]),
        4 => (0..n, proptest::collection::vec(write_cmd(), 1..5)).prop_map(|(conn, q)| {
            let mut s = vec![Step::Cmd { conn, args: vec![bs("MULTI")] }];
            for a in q {
                if matches!(upper(&a[0]).as_str(), "BLPOP" | "BRPOP") { continue; }
                s.push(Step::Cmd { conn, args: a });
            }
            s.push(Step::Cmd { conn, args: vec![bs("EXEC")] });
            s
        }),
        4 => (0..n, script()).prop_map(|(conn, args)| vec![Step::Cmd { conn, args }]),
        2 => (0..n, script()).prop_map(|(conn, args)| {
            let src = args[1].clone();
            let sha = crate::sha1::sha1_hex(&src).into_bytes();
            let mut e = vec![bs("EVALSHA"), sha];
            e.extend_from_slice(&args[2..]);
            vec![Step::Cmd { conn, args: vec![bs("SCRIPT"), bs("LOAD"), src] }, Step::Cmd { conn, args: e }]
        }),
        3 => (0..n, 1..n, select(vec![bs("bq"), bs("k"), b"bq\xff\xfe".to_vec(), b"b q\r\n".to_vec()]), select(vec![bs("BLPOP"), bs("BRPOP")]), select(vec![bs("LPUSH"), bs("RPUSH")])).prop_map(|(a, off, k, pop, push)| {
            let b = (a + off) % 3;
            vec![
                Step::Cmd { conn: a, args: vec![bs("SELECT"), bs("5")] },
                Step::Cmd { conn: b, args: vec![bs("SELECT"), bs("5")] },
                Step::Cmd { conn: b, args: vec![bs("DEL"), k.clone()] },
                Step::Send { conn: a, args: vec![pop, k.clone(), bs("0")] },
                Step::Cmd { conn: b, args: vec![push, k.clone(), bs("x1"), bs("x2")] },
                Step::Recv { conn: a },
            ]
        }),
    ]
    .boxed()
}

/// Command names and sub-command words are case-insensitive: one step in three is spelled in
/// lower or mixed case (the log must not depend on the spelling).
fn respell(word: &[u8], how: u8) -> Bytes {
    match how % 3 {
        0 => word.to_ascii_lowercase(),
        1 => word.iter().enumerate().map(|(i, c)| if i % 2 == 0 { c.to_ascii_lowercase() } else { c.to_ascii_uppercase() }).collect(),
        _ => word.to_vec(),
    }
}

fn history(max_blocks: usize) -> BoxedStrategy<Vec<Step>> {
    (proptest::collection::vec(block(), 3..=max_blocks), proptest::collection::vec(any::<u8>(), 8..40))
        .prop_map(|(b, noise)| {
            let mut steps = b.concat();
            for (i, st) in steps.iter_mut().enumerate() {
                let how = noise[i % noise.len()];
                if how % 3 != 0 {
                    continue;
                }
                if let Step::Cmd { args, .. } | Step::Send { args, .. } = st {
                    let name = upper(&args[0]);
                    args[0] = respell(&args[0], how / 3);
                    if matches!(name.as_str(), "SCRIPT") && args.len() > 1 {
                        args[1] = respell(&args[1], how / 7);
                    }
                }
            }
            steps
        })
        .boxed()
}

fn read_aof(server: &Server) -> Result<Vec<Cmd>, String> {
    let bytes = std::fs::read(server.dir.join("appendonly.aof")).unwrap_or_default();
    let (frames, leftover, err) = resp::decode_all(&bytes);
    if let Some(e) = err {
        return Err(format!("the AOF is not a sequence of RESP frames: {:?} after {} frames ({} bytes)", e, frames.len(), bytes.len()));
    }
    if leftover > 0 {
        return Err(format!("the AOF ends in a partial frame: {} trailing bytes after {} complete frames", leftover, frames.len()));
    }
    let mut out = Vec::new();
    for f in frames {
        match f {
            Frame::Array(v) if !v.is_empty() && v.iter().all(|x| matches!(x, Frame::Bulk(_))) => out.push(v.into_iter().map(|x| if let Frame::Bulk(b) = x { b } else { vec![] }).collect()),
            other => return Err(format!("the AOF holds a frame that is not a command (array of bulk strings): {:?}", other)),
        }
    }
    Ok(out)
}

struct Wk {
    replay: Server,
    live: Option<Server>,
}

/// A live server with an empty AOF whose "last logged database" is 0 (FLUSHALL is logged from
/// database 0, then the file is truncated; the server appends with O_APPEND).
fn prepare_live(wk: &mut Wk) -> Result<(), String> {
    let need = match &mut wk.live {
        Some(s) => !s.alive(),
        None => true,
    };
    if need {
        wk.live = Some(Server::start(ServerOpts { appendonly: true, ..Default::default() })?);
    }
    let live = wk.live.as_mut().unwrap();
    let mut c = live.client().map_err(|e| e.to_string())?;
    for cm in [vec!["SELECT", "0"], vec!["FLUSHALL"], vec!["SCRIPT", "FLUSH"]] {
        match c.cmd(&cm) {
            Reply::Frame(f) if !f.is_error() => {}
            r => return Err(format!("preparing the live server: {:?} -> {:?}", cm, r)),
        }
    }
    let f = std::fs::OpenOptions::new().write(true).open(live.dir.join("appendonly.aof")).map_err(|e| e.to_string())?;
    f.set_len(0).map_err(|e| e.to_string())?;
    Ok(())
}

fn exec(wk: &mut Wk, steps: &[Step]) -> CaseResult {
    if let Err(e) = prepare_live(wk) {
        wk.live = None;
        return CaseResult::infra(e);
    }
    let mut used_blocking = false;
    let live_port_dir = { let l = wk.live.as_ref().unwrap(); (l.port, l.dir.clone()) };
    let live = wk.live.as_mut().unwrap();
    let _ = &live_port_dir;
    let mut conns: Vec<Client> = Vec::new();
    for _ in 0..3 {
        match live.client() {
            Ok(mut c) => {
                c.default_timeout = Duration::from_secs(3);
                conns.push(c)
            }
            Err(e) => return CaseResult::infra(e.to_string()),
        }
    }
    // E: the commands executed, in execution order, in their outcome-preserving form
    let mut executed: Vec<Cmd> = Vec::new();
    let mut multi: Vec<Option<Vec<Cmd>>> = vec![None, None, None];
    let mut pending: Vec<Option<Cmd>> = vec![None, None, None];
    let mut labels = std::collections::BTreeSet::new();
    let mut trace = Vec::new();
    let mut paths = std::collections::BTreeSet::new();
    let note_exec = |executed: &mut Vec<Cmd>, args: &Cmd, reply: &Reply, labels: &mut std::collections::BTreeSet<&'static str>| {
        let name = upper(&args[0]);
        match name.as_str() {
            "SPOP" => {
                let members: Vec<Bytes> = match reply {
                    Reply::Frame(Frame::Bulk(b)) => vec![b.clone()],
                    Reply::Frame(Frame::Array(v)) => v.iter().filter_map(|f| f.as_bytes().map(|b| b.to_vec())).collect(),
                    _ => vec![],
                };
                if !members.is_empty() {
                    let mut c = vec![bs("SREM"), args[1].clone()];
                    c.extend(members);
                    executed.push(c);
                    labels.insert("random-outcome");
                }
            }
            "XADD" if args.len() > 2 && args[2] == b"*" => {
                if let Reply::Frame(Frame::Bulk(id)) = reply {
                    let mut c = args.clone();
                    c[2] = id.clone();
                    executed.push(c);
                    labels.insert("random-outcome");
                }
            }
            "BLPOP" | "BRPOP" => {
                if let Reply::Frame(Frame::Array(v)) = reply {
                    if let Some(k) = v.first().and_then(|f| f.as_bytes()) {
                        executed.push(vec![if name == "BLPOP" { bs("LPOP") } else { bs("RPOP") }, k.to_vec()]);
                        labels.insert("blocking-pop-effect");
                    }
                }
            }
            _ => executed.push(args.clone()),
        }
    };
    let mut fail: Option<(String, String)> = None;
    'steps: for (si, st) in steps.iter().enumerate() {
        match st {
            Step::Cmd { conn, args } => {
                if pending[*conn].is_some() {
                    continue;
                }
                let name = upper(&args[0]);
                let reply = conns[*conn].cmd(args);
                if trace.len() < 60 {
                    trace.push(json!({"conn": conn, "cmd": show_cmd(args).chars().take(160).collect::<String>(), "reply": format!("{:?}", reply).chars().take(120).collect::<String>()}));
                }
                if !matches!(reply, Reply::Frame(_)) {
                    // liveness is not this property's subject (and a stalled fsync can delay a reply)
                    wk.live = None;
                    return CaseResult::infra(format!("step {}: {} -> {:?}", si, show_cmd(args), reply));
                }
                match name.as_str() {
                    "MULTI" => {
                        if multi[*conn].is_none() && !reply.is_error() {
                            multi[*conn] = Some(Vec::new());
                        }
                    }
                    "EXEC" => {
                        if let Some(q) = multi[*conn].take() {
                            if let Reply::Frame(Frame::Array(slots)) = &reply {
                                for (c, slot) in q.iter().zip(slots) {
                                    note_exec(&mut executed, c, &Reply::Frame(slot.clone()), &mut labels);
                                }
                                if !q.is_empty() {
                                    paths.insert("transaction");
                                }
                            }
                        }
                    }
                    "DISCARD" => {
                        multi[*conn] = None;
                    }
                    _ => {
                        if let Some(q) = multi[*conn].as_mut() {
                            if matches!(&reply, Reply::Frame(Frame::Simple(s)) if s == b"QUEUED") {
                                q.push(args.clone());
                            }
                        } else {
                            note_exec(&mut executed, args, &reply, &mut labels);
                            match name.as_str() {
                                "EVAL" | "EVALSHA" => {
                                    if !reply.is_error() {
                                        paths.insert("script");
                                    }
                                }
                                "SELECT" => {
                                    if args.get(1).map_or(false, |d| d != b"0") {
                                        labels.insert("non-zero-database");
                                    }
                                }
                                _ => {
                                    paths.insert("direct");
                                }
                            }
                        }
                    }
                }
            }
            Step::Send { conn, args } => {
                if pending[*conn].is_some() || multi[*conn].is_some() {
                    continue;
                }
                let _ = conns[*conn].send_cmd(args);
                used_blocking = true;
                pending[*conn] = Some(args.clone());
                std::thread::sleep(Duration::from_millis(15));
                // served at once (the list was not empty)? then its effect belongs here
                if let Reply::Frame(f) = conns[*conn].read_reply(Duration::from_millis(2)) {
                    let reply = Reply::Frame(f);
                    note_exec(&mut executed, args, &reply, &mut labels);
                    pending[*conn] = None;
                }
            }
            Step::Recv { conn } => {
                if let Some(args) = pending[*conn].clone() {
                    let reply = conns[*conn].reply();
                    if !matches!(reply, Reply::Frame(_)) {
                        // still blocked (e.g. the push went to another database): leave it pending
                        continue;
                    }
                    pending[*conn] = None;
                    // the served pop happened when the push arrived: it belongs right after the push
                    // that is last in `executed`
                    note_exec(&mut executed, &args, &reply, &mut labels);
                    if matches!(&reply, Reply::Frame(Frame::Array(_))) {
                        paths.insert("blocking-wake-up");
                    }
                }
            }
            _ => {}
        }
        // (1) framing at all times
        if let Err(e) = read_aof(live) {
            fail = Some((format!("after step {}: {}", si, e), "aof-framing".into()));
            break 'steps;
        }
    }
    for p in &paths {
        labels.insert(match *p {
            "direct" => "path:direct",
            "transaction" => "path:transaction",
            "script" => "path:script",
            _ => "path:blocking-wake-up",
        });
    }
    let nontrivial = paths.len() >= 2 && (labels.contains("non-zero-database") || labels.contains("random-outcome") || labels.contains("blocking-pop-effect"));
    let mut res = CaseResult { verdict: Verdict::Pass, labels: labels.iter().map(|s| s.to_string()).collect(), nontrivial, excluded: vec![], trace: Some(Value::Array(trace)) };
    if let Some((what, sig)) = fail {
        res.verdict = Verdict::Fail { what, sig };
        return res;
    }
    if pending.iter().any(|p| p.is_some()) {
        // a client is still blocked: its later wake-up would race the dump; skip the comparison
        wk.live = None;
        return res;
    }
    let log = match read_aof(live) {
        Ok(l) => l,
        Err(e) => {
            res.verdict = Verdict::Fail { what: e, sig: "aof-framing".into() };
            return res;
        }
    };
    // (3) once, in order
    let mut ei = 0;
    for (li, c) in log.iter().enumerate() {
        if upper(&c[0]) == "SELECT" {
            continue;
        }
        let mut found = false;
        while ei < executed.len() {
            ei += 1;
            if &executed[ei - 1] == c {
                found = true;
                break;
            }
        }
        if !found {
            let times_logged = log.iter().filter(|x| *x == c).count();
            let times_executed = executed.iter().filter(|x| *x == c).count();
            res.verdict = Verdict::Fail {
                what: format!(
                    "AOF entry #{} {} is not the next executed command: it is logged {} time(s) and was executed {} time(s) (in outcome-preserving form); the log is not a subsequence of the execution order",
                    li,
                    show_cmd(c),
                    times_logged,
                    times_executed
                ),
                sig: if times_logged > times_executed { "logged-more-than-executed".into() } else { "logged-out-of-order".into() },
            };
            return res;
        }
    }
    // (2) redo
    let mut lc = match live.client() {
        Ok(c) => c,
        Err(e) => return CaseResult::infra(e.to_string()),
    };
    let all: Vec<usize> = (0..16).collect();
    let d_live = match dump::dump_server(&mut lc, &all) {
        Ok(d) => d,
        Err(e) => {
            res.verdict = Verdict::Fail { what: format!("dump of the live server: {}", e), sig: "dump-failed".into() };
            return res;
        }
    };
    if !wk.replay.alive() {
        match Server::start(ServerOpts::default()) {
            Ok(s) => wk.replay = s,
            Err(e) => return CaseResult::infra(e),
        }
    }
    let mut rc = match runner::reset_server(&mut wk.replay) {
        Ok(c) => c,
        Err(e) => return CaseResult::infra(e),
    };
    let _ = rc.cmd(&[b"SCRIPT".as_ref(), b"FLUSH"]);
    rc.default_timeout = Duration::from_millis(1500);
    for (li, c) in log.iter().enumerate() {
        match rc.cmd(c) {
            Reply::Frame(_) => {}
            r => {
                res.verdict = Verdict::Fail { what: format!("AOF entry #{} {} does not replay: {:?}", li, show_cmd(c), r), sig: format!("{}:unreplayable", upper(&c[0])) };
                wk.replay.kill();
                return res;
            }
        }
    }
    let d_replay = match dump::dump_server(&mut rc, &all) {
        Ok(d) => d,
        Err(e) => return CaseResult::infra(format!("dump of the replay server: {}", e)),
    };
    if let Some(d) = dump::diff(&d_live, &d_replay) {
        res.verdict = Verdict::Fail { what: format!("re-executing the AOF ({} entries) does not give the live dataset: {} (expected = live server, got = replayed)", log.len(), d), sig: "redo-differs".into() };
    }
    if used_blocking {
        // a disconnected blocked client may leave a registration behind
        wk.live = None;
    }
    res
}

pub fn run(tier: Tier, seed: u64, replay: Option<Value>) -> i32 {
    let ev = Mutex::new(Evidence::new(
        "C11",
        tier,
        seed,
        "exploration",
        "generated histories of 3..14 blocks over 3 connections against a fresh server with --appendonly: write commands of every family (incl. GETSET, HMSET, PEXPIRE, SETEX/PSETEX, SETRANGE, SPOP with and without count, XADD *, ZPOPMAX, RENAMENX, FLUSHDB, immediate BLPOP/BRPOP, binary and CRLF-bearing arguments, failing commands), SELECT among databases 0/1/5/15, MULTI..EXEC blocks, command names and SCRIPT sub-commands spelled in lower or mixed case in one step of three, EVAL scripts issuing 1..3 redis.call/pcall writes, SCRIPT LOAD + EVALSHA, and a BLPOP/BRPOP client blocked until another client's push. Oracles: (1) after every step the AOF on disk decodes into whole arrays of bulk strings without a partial tail; (2) the frames replayed in file order over one connection into an empty server give the same canonical dump (values, TTL presence) of all 16 databases; (3) the log without SELECT frames is a subsequence of the executed commands in execution order, with SPOP as SREM of the returned members, XADD * with the returned ID and served blocking pops as LPOP/RPOP. Non-trivial = effective writes through >= 2 paths and at least one of {non-zero database, random-outcome command, blocking pop effect}; distinct by hash of the step list",
    ));
    ev.lock().unwrap().assumptions.push("durability (fsync policy) is not observable without crashing the kernel and is not claimed; the harness does the replay itself (the server's start-up replay is a no-op)".into());
    let mk = |_: usize| -> Result<Wk, String> { Ok(Wk { replay: Server::start(ServerOpts::default())?, live: None }) };
    if let Some(r) = replay {
        let steps = runner::j2steps(r.get("case").unwrap_or(&r));
        let mut wk = match mk(0) {
            Ok(w) => w,
            Err(e) => {
                eprintln!("infrastructure: {}", e);
                return 2;
            }
        };
        let res = exec(&mut wk, &steps);
        crate::outln!("{}", serde_json::to_string_pretty(res.trace.as_ref().unwrap_or(&Value::Null)).unwrap());
        return match res.verdict {
            Verdict::Pass => {
                crate::outln!("replay: PASS");
                0
            }
            Verdict::Fail { what, sig } => {
                crate::outln!("replay: FAIL [{}] {}", sig, what);
                1
            }
            Verdict::Infra(m) => {
                crate::outln!("replay: inconclusive {}", m);
                2
            }
        };
    }
    let cfg = LoopCfg { cases: tier.pick(2500, 20000), workers: 7, max_shrink_execs: 150, max_violations: std::env::var("FVH_MAX_VIOL").ok().and_then(|s| s.parse().ok()).unwrap_or(10) };
    let max_blocks = tier.pick(14, 30);
    crate::driver::run_cases(&ev, &cfg, || history(max_blocks), mk, |wk, s: &Vec<Step>| exec(wk, s), |s| runner::steps2j(s));
    let e = ev.lock().unwrap();
    let _ = e.write();
    e.exit_code()
}
