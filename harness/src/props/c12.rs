//! C12 — scripts are atomic and redis.call means the same as the direct command.
//!
//! Twin servers fed the same generated history: on twin D every command is sent directly, on
//! twin S it is wrapped in a script that renders *what the script saw* as a tagged string.
//! Oracles: (1) the rendering equals the standard RESP->Lua conversion of twin D's reply;
//! (2) canonical dumps of the twins are equal after every step; (3) KEYS/ARGV arrive byte for
//! byte; (4) a failing redis.call aborts the script (earlier effects persist, later statements
//! do not run) while redis.pcall lets it continue; (5) EVALSHA == EVAL, unknown sha -> error;
//! (6) sandbox; (7) atomicity (the concurrent transfer workload of C07 with scripts).

use crate::client::{Client, Reply};
use crate::driver::{CaseResult, Evidence, LoopCfg, Tier, Verdict};
use crate::dump;
use crate::findings::Active;
use crate::gen::bs;
use crate::model::{show_cmd, upper, Bytes, Cmd};
use crate::resp::Frame;
use crate::sut::{Server, ServerOpts};
use proptest::prelude::*;
use proptest::sample::select;
use serde_json::{json, Value};
use std::sync::Mutex;
use std::time::Duration;

const PRELUDE: &str = "local function enc(v) local t = type(v) \
if t == 'number' then return 'i:' .. string.format('%.17g', v) \
elseif t == 'string' then return 's:' .. #v .. ':' .. v \
elseif t == 'boolean' then if v then return 'T' else return 'f' end \
elseif t == 'nil' then return 'n' \
elseif t == 'table' then \
if v.ok ~= nil then return 'ok:' .. tostring(v.ok) end \
if v.err ~= nil then return 'err:' .. tostring(v.err) end \
local n = table.maxn(v) local p = {} for i = 1, n do p[#p + 1] = enc(v[i]) end \
return 't' .. n .. '[' .. table.concat(p, ',') .. ']' \
else return '?' .. t end end ";

pub const K_STATUS: &str = "K10-lua-status-reply-as-plain-string";
pub const K_NIL: &str = "K11-lua-nil-reply-as-nil";

#[derive(Clone, Debug)]
pub enum Variant {
    Call,
    Pcall,
    /// first argument passed through KEYS[1]
    Keys,
    Evalsha,
}

#[derive(Clone, Debug)]
pub struct TwinStep {
    pub cmd: Cmd,
    pub variant: Variant,
}

#[derive(Clone, Debug)]
pub struct TwinCase {
    pub db: u8,
    pub steps: Vec<TwinStep>,
}

fn ascii_only(c: &Cmd) -> bool {
    c.iter().all(|a| a.iter().all(|b| *b < 0x80))
}

fn catalogue() -> BoxedStrategy<Cmd> {
    let k = select(vec![bs("k"), bs("j"), bs("kk")]).boxed();
    prop_oneof![
        8 => crate::gen::mixed_data_cmd(k.clone()),
        3 => crate::gen::c01_cmd(),
        3 => crate::gen::c03_cmd(),
        3 => crate::gen::c04_cmd(),
        2 => crate::gen::c15_cmd(),
    ]
    .prop_filter_map("deterministic, replayable inside a script", |c| {
        let n = upper(&c[0]);
        // random outcomes are compared by validity elsewhere; whole-keyspace flushes would make
        // every history trivial; XADD * depends on the clock; empty argument lists
        if matches!(n.as_str(), "SPOP" | "SRANDMEMBER" | "RANDOMKEY" | "FLUSHALL" | "FLUSHDB" | "KEYS" | "TTL" | "PTTL") || (n == "XADD" && c.get(2).map_or(false, |a| a == b"*")) {
            return None;
        }
        // values beyond a few KB only slow the twin down
        if c.iter().any(|a| a.len() > 2000) {
            return None;
        }
        Some(c)
    })
    .boxed()
}

fn twin_case(max_len: usize) -> BoxedStrategy<TwinCase> {
    let variant = prop_oneof![5 => Just(Variant::Call), 3 => Just(Variant::Pcall), 2 => Just(Variant::Keys), 2 => Just(Variant::Evalsha)];
    (select(vec![0u8, 0, 3, 9]), proptest::collection::vec((catalogue(), variant).prop_map(|(cmd, variant)| TwinStep { cmd, variant }), 1..=max_len)).prop_map(|(db, steps)| TwinCase { db, steps }).boxed()
}

fn wrap(st: &TwinStep) -> (Cmd, Option<Cmd>) {
    let call = match st.variant {
        Variant::Pcall => "pcall",
        _ => "call",
    };
    match st.variant {
        Variant::Keys if st.cmd.len() >= 2 => {
            let src = format!("{}local a = {{ARGV[1], KEYS[1]}} for i = 2, #ARGV do a[#a + 1] = ARGV[i] end return enc(redis.{}(unpack(a)))", PRELUDE, call);
            let mut c = vec![bs("EVAL"), src.into_bytes(), bs("1"), st.cmd[1].clone(), st.cmd[0].clone()];
            c.extend_from_slice(&st.cmd[2..]);
            (c, None)
        }
        Variant::Evalsha => {
            let src = format!("{}return enc(redis.{}(unpack(ARGV)))", PRELUDE, call).into_bytes();
            let sha = crate::sha1::sha1_hex(&src).into_bytes();
            let mut c = vec![bs("EVALSHA"), sha, bs("0")];
            c.extend_from_slice(&st.cmd);
            (c, Some(vec![bs("SCRIPT"), bs("LOAD"), src]))
        }
        _ => {
            let src = format!("{}return enc(redis.{}(unpack(ARGV)))", PRELUDE, call);
            let mut c = vec![bs("EVAL"), src.into_bytes(), bs("0")];
            c.extend_from_slice(&st.cmd);
            (c, None)
        }
    }
}

/// Standard RESP -> Lua conversion, rendered the way `enc` renders it.
fn expected_enc(f: &Frame, has_nil: &mut bool) -> Option<Bytes> {
    Some(match f {
        Frame::Int(i) => format!("i:{}", fmt_g(*i as f64)).into_bytes(),
        Frame::Bulk(b) => [format!("s:{}:", b.len()).as_bytes(), b.as_slice()].concat(),
        Frame::NullBulk | Frame::NullArray | Frame::Null3 => {
            *has_nil = true;
            b"f".to_vec()
        }
        Frame::Simple(s) => [b"ok:".as_ref(), s.as_slice()].concat(),
        Frame::Array(v) => {
            let mut out = format!("t{}[", v.len()).into_bytes();
            for (i, e) in v.iter().enumerate() {
                if i > 0 {
                    out.push(b',');
                }
                out.extend(expected_enc(e, has_nil)?);
            }
            out.push(b']');
            out
        }
        _ => return None,
    })
}

/// C's %.17g for the values integers take.
fn fmt_g(v: f64) -> String {
    if v == v.trunc() && v.abs() < 1e17 {
        format!("{}", v as i64)
    } else {
        // %.17g switches to exponent form at 1e17: d.dddddddddddddddde+XX
        let s = format!("{:.16e}", v);
        let (m, e) = s.split_once('e').unwrap();
        let m = m.trim_end_matches('0').trim_end_matches('.');
        let e: i32 = e.parse().unwrap();
        format!("{}e{}{:02}", m, if e < 0 { "-" } else { "+" }, e.abs())
    }
}

fn numeric_eq(a: &[u8], b: &[u8]) -> bool {
    // both "i:<number>": compare as doubles
    let p = |x: &[u8]| std::str::from_utf8(x).ok().and_then(|s| s.strip_prefix("i:")).and_then(|s| s.parse::<f64>().ok());
    matches!((p(a), p(b)), (Some(x), Some(y)) if x == y)
}

/// What the script saw, parsed back from the rendering (so that replies whose order is
/// unspecified — set members, hash fields, stream entry fields kept in a hash map — can be
/// compared as multisets).
#[derive(Clone, Debug, PartialEq, PartialOrd)]
enum Tree {
    Num(f64),
    Str(Bytes),
    False,
    Nil,
    True,
    Ok(Bytes),
    Err(Bytes),
    Table(Vec<Tree>),
}

fn parse_tree(b: &[u8], pos: &mut usize, top: bool) -> Option<Tree> {
    let rest = &b[*pos..];
    if rest.starts_with(b"i:") {
        let end = rest.iter().position(|c| *c == b',' || *c == b']').unwrap_or(rest.len());
        let v = std::str::from_utf8(&rest[2..end]).ok()?.parse::<f64>().ok()?;
        *pos += end;
        Some(Tree::Num(v))
    } else if rest.starts_with(b"s:") {
        let colon = rest[2..].iter().position(|c| *c == b':')? + 2;
        let n: usize = std::str::from_utf8(&rest[2..colon]).ok()?.parse().ok()?;
        let body = rest.get(colon + 1..colon + 1 + n)?;
        *pos += colon + 1 + n;
        Some(Tree::Str(body.to_vec()))
    } else if top && rest.starts_with(b"ok:") {
        *pos = b.len();
        Some(Tree::Ok(rest[3..].to_vec()))
    } else if top && rest.starts_with(b"err:") {
        *pos = b.len();
        Some(Tree::Err(rest[4..].to_vec()))
    } else if rest.starts_with(b"f") {
        *pos += 1;
        Some(Tree::False)
    } else if rest.starts_with(b"n") {
        *pos += 1;
        Some(Tree::Nil)
    } else if rest.starts_with(b"T") {
        *pos += 1;
        Some(Tree::True)
    } else if rest.starts_with(b"t") {
        let open = rest.iter().position(|c| *c == b'[')?;
        let n: usize = std::str::from_utf8(&rest[1..open]).ok()?.parse().ok()?;
        *pos += open + 1;
        let mut v = Vec::new();
        for i in 0..n {
            if i > 0 {
                if b.get(*pos) != Some(&b',') {
                    return None;
                }
                *pos += 1;
            }
            v.push(parse_tree(b, pos, false)?);
        }
        if b.get(*pos) != Some(&b']') {
            return None;
        }
        *pos += 1;
        Some(Tree::Table(v))
    } else {
        None
    }
}

fn frame_tree(f: &Frame) -> Option<Tree> {
    Some(match f {
        Frame::Int(i) => Tree::Num(*i as f64),
        Frame::Bulk(b) => Tree::Str(b.clone()),
        Frame::NullBulk | Frame::NullArray | Frame::Null3 => Tree::False,
        Frame::Simple(s) => Tree::Ok(s.clone()),
        Frame::Array(v) => Tree::Table(v.iter().map(frame_tree).collect::<Option<Vec<_>>>()?),
        _ => return None,
    })
}

fn sort_trees(v: &mut Vec<Tree>) {
    v.sort_by(|a, b| a.partial_cmp(b).unwrap_or(std::cmp::Ordering::Equal));
}

fn sort_pairs(t: &mut Tree) {
    if let Tree::Table(v) = t {
        if v.len() % 2 == 0 {
            let mut pairs: Vec<Tree> = v.chunks(2).map(|c| Tree::Table(c.to_vec())).collect();
            sort_trees(&mut pairs);
            *v = pairs;
        }
    }
}

fn canon_entries(t: &mut Tree) {
    // [[id, [f, v, ...]], ...]
    if let Tree::Table(entries) = t {
        for e in entries {
            if let Tree::Table(iv) = e {
                if let Some(fields) = iv.get_mut(1) {
                    sort_pairs(fields);
                }
            }
        }
    }
}

/// Orders that the server does not define (hash-map iteration) are removed before comparing.
fn canon(name: &str, mut t: Tree) -> Tree {
    match name {
        "SMEMBERS" | "SUNION" | "SINTER" | "SDIFF" | "HKEYS" | "HVALS" | "KEYS" => {
            if let Tree::Table(v) = &mut t {
                sort_trees(v);
            }
        }
        "HGETALL" => sort_pairs(&mut t),
        "XRANGE" | "XREVRANGE" => canon_entries(&mut t),
        "XREAD" => {
            if let Tree::Table(streams) = &mut t {
                for s in streams {
                    if let Tree::Table(kv) = s {
                        if let Some(entries) = kv.get_mut(1) {
                            canon_entries(entries);
                        }
                    }
                }
            }
        }
        _ => {}
    }
    t
}

fn nil_for_false(t: Tree) -> Tree {
    match t {
        Tree::False => Tree::Nil,
        Tree::Table(v) => {
            let mut v: Vec<Tree> = v.into_iter().map(nil_for_false).collect();
            while v.last() == Some(&Tree::Nil) {
                v.pop();
            }
            Tree::Table(v)
        }
        o => o,
    }
}

fn same_with_nil_for_false(name: &str, direct: &Frame, saw: &[u8]) -> bool {
    let mut pos = 0;
    match (frame_tree(direct), parse_tree(saw, &mut pos, true)) {
        (Some(a), Some(b)) if pos == saw.len() => canon(name, nil_for_false(a)) == canon(name, b),
        _ => false,
    }
}

fn same_modulo_order(name: &str, direct: &Frame, saw: &[u8]) -> bool {
    let mut pos = 0;
    match (frame_tree(direct), parse_tree(saw, &mut pos, true)) {
        (Some(a), Some(b)) if pos == saw.len() => canon(name, a) == canon(name, b),
        _ => false,
    }
}

// ---------- return-value shapes ----------

/// A Lua value a script returns. false, non-integral numbers and empty tables are not generated:
/// the repository's own tests pin a non-standard conversion for them (false -> :0, 3.14 -> bulk
/// string, {} -> nil), so no verdict is possible there.
#[derive(Clone, Debug)]
enum LuaLit {
    Nil,
    True,
    Int(i64),
    Str(Bytes),
    Table(Vec<LuaLit>),
}

fn lua_lit() -> BoxedStrategy<LuaLit> {
    let leaf = prop_oneof![
        1 => Just(LuaLit::Nil),
        1 => Just(LuaLit::True),
        3 => prop_oneof![(-1000i64..1000), Just(0i64), Just(1i64 << 52), Just(-(1i64 << 52)), any::<i32>().prop_map(|x| x as i64)].prop_map(LuaLit::Int),
        3 => proptest::collection::vec(any::<u8>(), 0..12).prop_map(LuaLit::Str),
        1 => select(vec![bs(""), bs("OK"), bs("a b"), b"\r\n".to_vec(), b"\x00".to_vec(), b"\xff\xfe".to_vec()]).prop_map(LuaLit::Str),
    ];
    leaf.prop_recursive(3, 24, 5, |inner| proptest::collection::vec(inner, 1..5).prop_map(LuaLit::Table)).boxed()
}

fn lua_src(l: &LuaLit, out: &mut String) {
    match l {
        LuaLit::Nil => out.push_str("nil"),
        LuaLit::True => out.push_str("true"),
        LuaLit::Int(i) => out.push_str(&i.to_string()),
        LuaLit::Str(b) => {
            out.push('"');
            for c in b {
                out.push_str(&format!("\\{:03}", c));
            }
            out.push('"');
        }
        LuaLit::Table(v) => {
            out.push('{');
            for (i, e) in v.iter().enumerate() {
                if i > 0 {
                    out.push(',');
                }
                lua_src(e, out);
            }
            out.push('}');
        }
    }
}

/// Standard Lua -> RESP conversion (None = a shape whose conversion the repository pins
/// differently: a table that converts to an empty array).
fn lua_expected(l: &LuaLit) -> Option<Frame> {
    Some(match l {
        LuaLit::Nil => Frame::NullBulk,
        LuaLit::True => Frame::Int(1),
        LuaLit::Int(i) => Frame::Int(*i),
        LuaLit::Str(b) => Frame::Bulk(b.clone()),
        LuaLit::Table(v) => {
            let mut out = Vec::new();
            for e in v {
                if matches!(e, LuaLit::Nil) {
                    break;
                }
                out.push(lua_expected(e)?);
            }
            if out.is_empty() {
                return None;
            }
            Frame::Array(out)
        }
    })
}

fn return_shapes(ev: &mut Evidence, tier: Tier, seed: u64) {
    use proptest::strategy::ValueTree;
    let server = match Server::start(ServerOpts::default()) {
        Ok(s) => s,
        Err(e) => {
            ev.infra.push(e);
            return;
        }
    };
    let mut c = match server.client() {
        Ok(c) => c,
        Err(e) => {
            ev.infra.push(e.to_string());
            return;
        }
    };
    let mut runner = crate::driver::seeded_runner(seed, 77);
    let strat = lua_lit();
    for _ in 0..tier.pick(400, 6000) {
        let Ok(tree) = strat.new_tree(&mut runner) else { continue };
        let lit = tree.current();
        let Some(want) = lua_expected(&lit) else {
            ev.count_label("return-shape:pinned-otherwise-skipped", 1);
            continue;
        };
        let mut src = String::from("return ");
        lua_src(&lit, &mut src);
        let r = c.cmd(&["EVAL", src.as_str(), "0"]);
        ev.evaluations += 1;
        ev.count_label(if matches!(lit, LuaLit::Table(_)) { "return-shape:table" } else { "return-shape:scalar" }, 1);
        ev.nontrivial.insert(crate::driver::hash_debug(&lit));
        if ev.samples.len() < 6 {
            ev.add_sample(json!({"script": src.chars().take(160).collect::<String>(), "reply": format!("{:?}", r).chars().take(120).collect::<String>()}));
        }
        if r != Reply::Frame(want.clone()) {
            ev.violation(
                &format!("script `{}` -> {:?}, but the standard Lua-to-RESP conversion gives {:?}", src.chars().take(300).collect::<String>(), r, want),
                "return-conversion",
                json!({"kind": "fixed", "script": src}),
            );
            if ev.violations.len() > 5 {
                return;
            }
        }
    }
}

pub struct Twins {
    pub d: Server,
    pub s: Server,
}

fn reset(t: &mut Twins) -> Result<(Client, Client), String> {
    if !t.d.alive() {
        t.d = Server::start(ServerOpts::default())?;
    }
    if !t.s.alive() {
        t.s = Server::start(ServerOpts::default())?;
    }
    let a = crate::runner::reset_server(&mut t.d)?;
    let mut b = crate::runner::reset_server(&mut t.s)?;
    let _ = b.cmd(&[b"SCRIPT".as_ref(), b"FLUSH"]);
    Ok((a, b))
}

fn exec_twin(t: &mut Twins, c: &TwinCase, active: &Active) -> CaseResult {
    let (mut cd, mut cs) = match reset(t) {
        Ok(x) => x,
        Err(e) => return CaseResult::infra(e),
    };
    let dbs = [c.db as usize, 0];
    for cl in [&mut cd, &mut cs] {
        cl.default_timeout = Duration::from_secs(8);
        let _ = cl.cmd(&[b"SELECT".to_vec(), c.db.to_string().into_bytes()]);
    }
    let mut obs_d = match t.d.client() {
        Ok(c) => c,
        Err(e) => return CaseResult::infra(e.to_string()),
    };
    let mut obs_s = match t.s.client() {
        Ok(c) => c,
        Err(e) => return CaseResult::infra(e.to_string()),
    };
    let mut labels = std::collections::BTreeSet::new();
    let mut excluded: std::collections::BTreeMap<String, u64> = Default::default();
    let mut trace = Vec::new();
    let mut nontrivial = false;
    if c.db != 0 {
        labels.insert("non-zero-database");
    }
    let res = |verdict: Verdict, labels: &std::collections::BTreeSet<&'static str>, excluded: &std::collections::BTreeMap<String, u64>, trace: Vec<Value>, nontrivial: bool| CaseResult {
        verdict,
        labels: labels.iter().map(|s| s.to_string()).collect(),
        nontrivial,
        excluded: excluded.iter().map(|(k, v)| (k.clone(), *v)).collect(),
        trace: Some(Value::Array(trace)),
    };
    for (si, st) in c.steps.iter().enumerate() {
        let name = upper(&st.cmd[0]);
        if !ascii_only(&st.cmd) {
            labels.insert("binary-arguments");
        }
        if active.has(super::kf::K_LAX_INT) && super::kf::int_positions(&st.cmd).iter().any(|i| super::kf::is_lax_int(&st.cmd[*i])) {
            *excluded.entry(super::kf::K_LAX_INT.to_string()).or_insert(0) += 1;
            continue;
        }
        if active.has(super::kf::K_EMPTY_KEY) && super::kf::key_positions(&st.cmd).iter().any(|i| st.cmd[*i].is_empty()) {
            *excluded.entry(super::kf::K_EMPTY_KEY.to_string()).or_insert(0) += 1;
            continue;
        }
        let rd = cd.cmd(&st.cmd);
        let (wrapped, preload) = wrap(st);
        if let Some(p) = preload {
            let _ = cs.cmd(&p);
        }
        let rs = cs.cmd(&wrapped);
        labels.insert(match st.variant {
            Variant::Call => "variant:call",
            Variant::Pcall => "variant:pcall",
            Variant::Keys => "variant:keys",
            Variant::Evalsha => "variant:evalsha",
        });
        if trace.len() < 40 {
            trace.push(json!({"cmd": show_cmd(&st.cmd).chars().take(140).collect::<String>(), "variant": format!("{:?}", st.variant), "direct": format!("{:?}", rd).chars().take(100).collect::<String>(), "script_saw": format!("{:?}", rs).chars().take(120).collect::<String>()}));
        }
        let (fd, fs) = match (&rd, &rs) {
            (Reply::Frame(a), Reply::Frame(b)) => (a.clone(), b.clone()),
            _ => {
                return res(
                    Verdict::Fail { what: format!("step {}: {} -> direct {:?}, through a script {:?}", si, show_cmd(&st.cmd), rd, rs), sig: format!("{}:no-reply", name) },
                    &labels,
                    &excluded,
                    trace,
                    nontrivial,
                )
            }
        };
        // (1) conversion
        let is_pcall = matches!(st.variant, Variant::Pcall);
        let mismatch: Option<String> = if fd.is_error() {
            labels.insert("error-reply");
            nontrivial = true;
            match &fs {
                Frame::Error(_) if !is_pcall => None,
                Frame::Bulk(b) if is_pcall && b.starts_with(b"err:") => None,
                other => Some(format!("the direct command fails ({:?}) but the script saw {:?} ({})", fd, other, if is_pcall { "redis.pcall must return a table with an err field" } else { "redis.call must raise, aborting the script with an error reply" })),
            }
        } else {
            let mut has_nil = false;
            match expected_enc(&fd, &mut has_nil) {
                None => None,
                Some(exp) => {
                    if has_nil || matches!(fd, Frame::Array(_)) {
                        labels.insert("nil-or-nested-reply");
                        nontrivial = true;
                    }
                    match &fs {
                        Frame::Bulk(got) if *got == exp || numeric_eq(got, &exp) => None,
                        Frame::Bulk(got) if same_modulo_order(&name, &fd, got) => {
                            labels.insert("unordered-reply");
                            None
                        }
                        Frame::Bulk(got) if active.has(K_STATUS) && matches!(&fd, Frame::Simple(s) if *got == [format!("s:{}:", s.len()).as_bytes(), s.as_slice()].concat()) => {
                            *excluded.entry(K_STATUS.to_string()).or_insert(0) += 1;
                            None
                        }
                        Frame::Bulk(got) if active.has(K_NIL) && has_nil && same_with_nil_for_false(&name, &fd, got) => {
                            // known finding: nil where false is due (holes at the end of a table shorten it);
                            // everything else about the reply is still compared
                            *excluded.entry(K_NIL.to_string()).or_insert(0) += 1;
                            None
                        }
                        other => Some(format!(
                            "the direct reply {:?} must reach the script as {} but the script saw {}",
                            fd,
                            crate::resp::show_bytes(&exp),
                            match other {
                                Frame::Bulk(g) => crate::resp::show_bytes(g),
                                o => format!("(script reply) {:?}", o),
                            }
                        )),
                    }
                }
            }
        };
        if let Some(m) = mismatch {
            return res(Verdict::Fail { what: format!("step {}: {} [{:?}]: {}", si, show_cmd(&st.cmd), st.variant, m), sig: format!("{}:conversion", name) }, &labels, &excluded, trace, nontrivial);
        }
        // (2) same effect
        let dd = dump::dump_server(&mut obs_d, &dbs);
        let ds = dump::dump_server(&mut obs_s, &dbs);
        match (dd, ds) {
            (Ok(a), Ok(b)) => {
                if let Some(d) = dump::diff(&a, &b) {
                    return res(
                        Verdict::Fail { what: format!("step {}: {} [{:?}] has a different effect through a script: {} (expected = direct, got = script)", si, show_cmd(&st.cmd), st.variant, d), sig: format!("{}:effect", name) },
                        &labels,
                        &excluded,
                        trace,
                        nontrivial,
                    );
                }
                if !a.values().all(|m| m.is_empty()) {
                    labels.insert("mutated");
                }
            }
            (a, b) => return res(Verdict::Fail { what: format!("step {}: dump failed after {}: {:?} / {:?}", si, show_cmd(&st.cmd), a.err(), b.err()), sig: format!("{}:dump-failed", name) }, &labels, &excluded, trace, nontrivial),
        }
    }
    let nt = nontrivial || labels.contains("mutated");
    res(Verdict::Pass, &labels, &excluded, trace, nt)
}

fn case2j(c: &TwinCase) -> Value {
    json!({"kind": "twin", "db": c.db, "steps": c.steps.iter().map(|s| json!({"cmd": crate::driver::cmd2j(&s.cmd), "variant": format!("{:?}", s.variant)})).collect::<Vec<_>>()})
}

fn j2case(v: &Value) -> TwinCase {
    TwinCase {
        db: v.get("db").and_then(|x| x.as_u64()).unwrap_or(0) as u8,
        steps: v
            .get("steps")
            .and_then(|s| s.as_array())
            .map(|a| {
                a.iter()
                    .map(|s| TwinStep {
                        cmd: crate::driver::j2cmd(s.get("cmd").unwrap_or(&Value::Null)),
                        variant: match s.get("variant").and_then(|x| x.as_str()).unwrap_or("") {
                            "Pcall" => Variant::Pcall,
                            "Keys" => Variant::Keys,
                            "Evalsha" => Variant::Evalsha,
                            _ => Variant::Call,
                        },
                    })
                    .collect()
            })
            .unwrap_or_default(),
    }
}

// ---------- fixed script checks: bytes, abort semantics, EVALSHA, sandbox ----------

fn bulk_of(r: &Reply) -> Option<Bytes> {
    match r {
        Reply::Frame(Frame::Bulk(b)) => Some(b.clone()),
        _ => None,
    }
}

fn fixed_checks(ev: &mut Evidence, active: &Active) {
    let mut server = match Server::start(ServerOpts::default()) {
        Ok(s) => s,
        Err(e) => {
            ev.infra.push(e);
            return;
        }
    };
    let canary = server.dir.join("canary");
    let _ = std::fs::create_dir_all(&canary);
    let mut c = match server.client() {
        Ok(c) => c,
        Err(e) => {
            ev.infra.push(e.to_string());
            return;
        }
    };
    let check = |ev: &mut Evidence, label: &str, ok: bool, what: String, sig: &str, repro: Value| {
        ev.evaluations += 1;
        ev.count_label(label, 1);
        ev.nontrivial.insert(crate::driver::hash_debug(&(label, &what)));
        if !ok {
            ev.violation(&what, sig, repro);
        }
    };
    // (3) KEYS / ARGV byte for byte
    let bytes_script = "local function hex(s) local o = {} for i = 1, #s do o[#o + 1] = string.format('%02x', string.byte(s, i)) end return table.concat(o) end return hex(KEYS[1]) .. '|' .. hex(ARGV[1])";
    let samples: Vec<Bytes> = vec![bs("plain"), bs(""), b"a\r\nb".to_vec(), b"\x00\x01".to_vec(), b"\xff\xfe\x80".to_vec(), "é".as_bytes().to_vec(), b"\xc3\x28".to_vec(), vec![0xE2, 0x82], (0u8..=255).collect()];
    for k in &samples {
        for a in [&samples[0], k] {
            let binary = !ascii_only(&vec![k.clone(), a.clone()]) || k.iter().chain(a.iter()).any(|b| *b < 0x20);
            let r = c.cmd(&[bs("EVAL"), bs(bytes_script), bs("1"), k.clone(), a.clone()]);
            let want = format!("{}|{}", crate::childworker::hex(k), crate::childworker::hex(a)).into_bytes();
            let got = bulk_of(&r);
            let ok = got.as_ref() == Some(&want);
            let _ = binary;
            check(
                ev,
                "keys-argv-bytes",
                ok,
                format!("KEYS[1]={} ARGV[1]={} arrived in the script as {:?} (expected the hex of the exact bytes)", crate::resp::show_bytes(k), crate::resp::show_bytes(a), r),
                "keys-argv-bytes",
                json!({"kind": "fixed", "script": bytes_script, "key": crate::driver::b2j(k), "arg": crate::driver::b2j(a)}),
            );
        }
    }
    // (4) abort semantics
    let _ = c.cmd(&[b"FLUSHALL".as_ref()]);
    let _ = c.cmd(&["RPUSH", "alist", "x"]);
    let r = c.cmd(&["EVAL", "redis.call('SET', 'w1', '1'); redis.call('INCR', 'alist'); redis.call('SET', 'w2', '1'); return 'done'", "0"]);
    let w1 = c.cmd(&["EXISTS", "w1"]);
    let w2 = c.cmd(&["EXISTS", "w2"]);
    check(
        ev,
        "call-aborts-script",
        r.is_error() && w1 == Reply::Frame(Frame::Int(1)) && w2 == Reply::Frame(Frame::Int(0)),
        format!("script 'SET w1; INCR on a list (fails); SET w2' with redis.call: reply {:?}, w1 exists {:?}, w2 exists {:?} (expected an error reply, w1 persisted, w2 never run)", r, w1, w2),
        "call-abort-semantics",
        json!({"kind": "fixed", "name": "call-aborts-script"}),
    );
    let _ = c.cmd(&["DEL", "w1", "w2"]);
    let r = c.cmd(&["EVAL", "redis.call('SET', 'w1', '1'); redis.pcall('INCR', 'alist'); redis.call('SET', 'w2', '1'); return 'done'", "0"]);
    let w1 = c.cmd(&["EXISTS", "w1"]);
    let w2 = c.cmd(&["EXISTS", "w2"]);
    check(
        ev,
        "pcall-continues",
        bulk_of(&r) == Some(bs("done")) && w1 == Reply::Frame(Frame::Int(1)) && w2 == Reply::Frame(Frame::Int(1)),
        format!("the same script with redis.pcall: reply {:?}, w1 {:?}, w2 {:?} (expected 'done' and both written)", r, w1, w2),
        "pcall-semantics",
        json!({"kind": "fixed", "name": "pcall-continues"}),
    );
    // numbers as arguments: a Lua number passed to redis.call is the command argument spelled
    // in decimal (as C's %.17g): generated dyadic rationals (exact in binary, so every
    // formatting agrees on them) as literals and as results of arithmetic
    {
        let mut vals: Vec<(String, String)> = vec![("1.5".into(), "1.5".into()), ("-0.25".into(), "-0.25".into()), ("3".into(), "3".into()), ("3.0".into(), "3".into()), ("-7".into(), "-7".into()), ("tonumber(ARGV[1]) * 1.5".into(), "4.5".into()), ("10 / 4".into(), "2.5".into()), ("2^10 + 0.5".into(), "1024.5".into())];
        for m in [-1000i64, -37, -1, 1, 5, 99, 12345] {
            for k in [1u32, 2, 4] {
                let v = m as f64 / (1u64 << k) as f64;
                vals.push((format!("{}", v), format!("{}", v)));
            }
        }
        for (expr, want) in &vals {
            let script = format!("redis.call('SET', KEYS[1], {}); return redis.call('GET', KEYS[1])", expr);
            let r = c.cmd(&["EVAL", script.as_str(), "1", "num:k", "3"]);
            check(ev, "numeric-argument", bulk_of(&r) == Some(want.as_bytes().to_vec()), format!("script `{}` stored {:?}, but the number {} as a command argument is \"{}\"", script, r, expr, want), "numeric-argument", json!({"kind": "fixed", "script": script}));
            let script = format!("redis.call('DEL', KEYS[1]); redis.call('ZADD', KEYS[1], {}, 'm'); return redis.call('ZSCORE', KEYS[1], 'm')", expr);
            let r = c.cmd(&["EVAL", script.as_str(), "1", "num:z", "3"]);
            let direct = {
                let _ = c.cmd(&["DEL", "num:zd"]);
                let _ = c.cmd(&["ZADD", "num:zd", want.as_str(), "m"]);
                c.cmd(&["ZSCORE", "num:zd", "m"])
            };
            check(ev, "numeric-argument", r == direct, format!("script `{}` -> {:?}, the direct ZADD with score {} gives {:?}", script, r, want, direct), "numeric-argument", json!({"kind": "fixed", "script": script}));
        }
    }
    // a plain string return, an uncaught error
    let r = c.cmd(&["EVAL", "return 'hello'", "0"]);
    check(ev, "plain-return", bulk_of(&r) == Some(bs("hello")), format!("return 'hello' -> {:?}", r), "plain-return", json!({"kind": "fixed", "name": "plain-return"}));
    let r = c.cmd(&["EVAL", "error('boom')", "0"]);
    check(ev, "script-error", r.is_error(), format!("error('boom') -> {:?} (expected an error reply)", r), "script-error", json!({"kind": "fixed", "name": "script-error"}));
    // (5) EVALSHA
    let src = "redis.call('RPUSH', KEYS[1], ARGV[1]); return redis.call('LLEN', KEYS[1])";
    let _ = c.cmd(&["SELECT", "7"]);
    let sha = bulk_of(&c.cmd(&["SCRIPT", "LOAD", src])).unwrap_or_default();
    let want_sha = crate::sha1::sha1_hex(src.as_bytes());
    check(ev, "script-load-sha", sha == want_sha.as_bytes(), format!("SCRIPT LOAD returned {} for a script whose SHA-1 is {}", crate::resp::show_bytes(&sha), want_sha), "script-load-sha", json!({"kind": "fixed", "name": "script-load-sha"}));
    let r1 = c.cmd(&[bs("EVALSHA"), sha.clone(), bs("1"), bs("shalist"), bs("a")]);
    let r2 = c.cmd(&["EVAL", src, "1", "shalist", "b"]);
    let l7 = c.cmd(&["LRANGE", "shalist", "0", "-1"]);
    let _ = c.cmd(&["SELECT", "0"]);
    let l0 = c.cmd(&["EXISTS", "shalist"]);
    check(
        ev,
        "evalsha-equals-eval",
        r1 == Reply::Frame(Frame::Int(1)) && r2 == Reply::Frame(Frame::Int(2)) && l7 == Reply::Frame(Frame::Array(vec![Frame::bulk("a"), Frame::bulk("b")])) && l0 == Reply::Frame(Frame::Int(0)),
        format!("in database 7: EVALSHA -> {:?}, EVAL of the same source -> {:?}, list {:?}, same name in database 0 exists {:?}", r1, r2, l7, l0),
        "evalsha-differs-from-eval",
        json!({"kind": "fixed", "name": "evalsha-equals-eval"}),
    );
    let r = c.cmd(&["EVALSHA", "ffffffffffffffffffffffffffffffffffffffff", "0"]);
    check(ev, "evalsha-unknown", r.is_error(), format!("EVALSHA of an unknown digest -> {:?}", r), "evalsha-unknown", json!({"kind": "fixed", "name": "evalsha-unknown"}));
    let r = c.cmd(&[bs("EVALSHA"), sha.to_ascii_uppercase(), bs("1"), bs("shalist2"), bs("a")]);
    check(ev, "evalsha-uppercase-digest", !r.is_error(), format!("EVALSHA with the digest in upper case -> {:?} (digests are case-insensitive)", r), "evalsha-case", json!({"kind": "fixed", "name": "evalsha-uppercase"}));
    // (6) sandbox
    let cpath = canary.join("pwned").display().to_string();
    let escapes: Vec<String> = vec![
        format!("local f = io.open('{}', 'w') f:write('x') f:close() return 1", cpath),
        format!("os.execute('touch {}') return 1", cpath),
        "return os.getenv('HOME')".into(),
        "return os.time()".into(),
        "return require('os')".into(),
        "return require('io')".into(),
        format!("return dofile('{}')", cpath),
        format!("return loadfile('{}')", cpath),
        "return package.loaded".into(),
        "return package.path".into(),
        "return debug.getinfo(1)".into(),
        "return debug.getregistry()".into(),
        format!("return io.popen('touch {}')", cpath),
        "return io.read()".into(),
        format!("return io.lines('{}')", "/etc/passwd"),
        "local os = _G['os'] return os.clock()".into(),
        "return _G.io.stdout".into(),
        "return getfenv(0).os.exit()".into(),
        "return string.dump(function() end)".into(),
        "return newproxy(true)".into(),
        "return collectgarbage('count')".into(),
        "return load('return 1')()".into(),
        "return loadstring('return os')()".into(),
    ];
    for s in &escapes {
        let r = c.cmd(&["EVAL", s.as_str(), "0"]);
        let alive = server.alive();
        let harmless = matches!(r, Reply::Frame(Frame::Error(_))) || matches!(&r, Reply::Frame(f) if f.is_nil());
        // string.dump / newproxy / collectgarbage / loadstring of pure Lua are not file-system or
        // process access: for them only "no escape" is required
        let pure = s.contains("string.dump") || s.contains("newproxy") || s.contains("collectgarbage") || s.contains("load('return 1')");
        let created = canary.join("pwned").exists();
        check(
            ev,
            "sandbox-escape",
            alive && !created && (harmless || pure || (s.contains("loadstring") && !matches!(&r, Reply::Frame(Frame::Array(_))))),
            format!("script `{}` -> {:?}{}{} (expected an error or nil, no file, server alive)", s, r, if created { "; a file was created in the canary directory" } else { "" }, if alive { "" } else { "; the server process ended" }),
            "sandbox",
            json!({"kind": "fixed", "script": s}),
        );
        if !alive {
            return;
        }
    }
    for cmdname in ["BLPOP", "BRPOP", "SUBSCRIBE", "PSUBSCRIBE", "MULTI", "EXEC", "WATCH", "SELECT", "AUTH", "EVAL", "EVALSHA", "SCRIPT", "SHUTDOWN", "MONITOR", "SYNC", "PSYNC", "QUIT", "CLIENT", "DEBUG", "SAVE", "BGSAVE", "REPLICAOF", "SLAVEOF", "CONFIG", "SLEEP"] {
        let r = c.cmd(&["EVAL", "return redis.call(unpack(ARGV))", "0", cmdname, "k", "0"]);
        let alive = server.alive();
        let after = c.cmd(&["PING"]);
        check(
            ev,
            "forbidden-command-in-script",
            alive && r.is_error() && after == Reply::Frame(Frame::Simple(b"PONG".to_vec())),
            format!("redis.call('{}', 'k', '0') from a script -> {:?}; PING afterwards -> {:?}{} (expected an error reply and an unchanged, usable connection)", cmdname, r, after, if alive { "" } else { "; the server process ended" }),
            "forbidden-command",
            json!({"kind": "fixed", "forbidden": cmdname}),
        );
        if !alive {
            return;
        }
    }
    // connection state unchanged: still in database 0, not in MULTI
    let _ = c.cmd(&["SET", "state:probe", "1"]);
    let r = c.cmd(&["EVAL", "return redis.call('EXISTS', 'state:probe')", "0"]);
    check(ev, "connection-state-unchanged", r == Reply::Frame(Frame::Int(1)), format!("after the forbidden commands the connection sees {:?} for a key of database 0", r), "connection-state", json!({"kind": "fixed", "name": "connection-state"}));
    drop(c);
    server.kill();
}

pub fn run(tier: Tier, seed: u64, replay: Option<Value>) -> i32 {
    let ev = Mutex::new(Evidence::new(
        "C12",
        tier,
        seed,
        "exploration",
        "twin servers fed the same generated history (1..20 steps in a generated selected database 0/3/9) over the deterministic data catalogue of C01/C03/C04/C15 (strings, keys, lists, sets, hashes, sorted sets, streams; boundary indices, bad arguments, wrong types): twin D gets the command directly, twin S gets it wrapped as redis.call / redis.pcall / with the key passed through KEYS / through EVALSHA after SCRIPT LOAD, in a script that renders what it saw as a tagged string (number, string with length, false, nil, table with maxn, ok-table, err-table). Oracles: the rendering equals the standard RESP->Lua conversion of D's reply (numbers compared as doubles), an error reply on D means a raised error (call) or an err-table (pcall) on S, and the canonical dumps of the twins are equal after every step. Fixed script checks in every run: KEYS/ARGV bytes via string.byte for 9 byte patterns incl. all 256 byte values; redis.call aborts / redis.pcall continues with earlier effects kept; numbers (literals and arithmetic results, dyadic rationals) passed as arguments to redis.call vs. their decimal spelling sent directly; plain string return and uncaught error; EVALSHA == EVAL in a non-zero database, unknown and upper-case digests; 23 sandbox escapes (os, io, require, dofile, loadfile, package, debug, getfenv, popen) with a canary directory; 25 forbidden commands through redis.call. Return shapes: generated nested Lua literals returned by a script vs. the standard Lua->RESP conversion. Atomicity: the concurrent transfer workload of C07 with the transfer done by a script. Non-trivial = a wrapped command that mutates, returns a nested/nil-bearing reply, or errors; distinct by hash of the case",
    ));
    ev.lock().unwrap().assumptions.push("return values: generated nested Lua literals (nil, true, integers, binary strings, nested tables with holes) are compared with the standard Lua-to-RESP conversion; false, non-integral numbers and empty tables are not generated because the repository's own tests pin a non-standard conversion for them (false -> :0, 3.14 -> bulk string, {} -> nil)".into());
    // known findings: probed through the wrapper itself
    let findings = crate::findings::Findings::load();
    let mut active = Active::default();
    let mk = |_: usize| -> Result<Twins, String> { Ok(Twins { d: Server::start(ServerOpts::default())?, s: Server::start(ServerOpts::default())? }) };
    if replay.is_none() {
        if let Ok(server) = Server::start(ServerOpts::default()) {
            if let Ok(mut c) = server.client() {
                let wrap_src = |call: &str| format!("{}return enc(redis.{}(unpack(ARGV)))", PRELUDE, call);
                let probe = |c: &mut Client, call: &str, cmd: &[&str]| -> Option<Bytes> {
                    let mut a: Vec<Bytes> = vec![bs("EVAL"), wrap_src(call).into_bytes(), bs("0")];
                    a.extend(cmd.iter().map(|s| bs(s)));
                    bulk_of(&c.cmd(&a))
                };
                let _ = c.cmd(&["RPUSH", "probe:list", "x"]);
                for f in findings.open_for("C12") {
                    let reproduces = match f.id.as_str() {
                        K_STATUS => probe(&mut c, "call", &["SET", "probe:k", "v"]) != Some(bs("ok:OK")),
                        K_NIL => probe(&mut c, "call", &["GET", "probe:missing"]) != Some(bs("f")),
                        x if x == super::kf::K_LAX_INT => {
                            let r = c.cmd(&["INCRBY", "probe:laxint", "+1"]);
                            let _ = c.cmd(&["DEL", "probe:laxint"]);
                            !r.is_error()
                        }
                        x if x == super::kf::K_EMPTY_KEY => true,
                        _ => false,
                    };
                    if reproduces {
                        ev.lock().unwrap().known(&f.id, &f.what_fails);
                        active.ids.insert(f.id.clone());
                    }
                }
            }
        }
    }
    if let Some(r) = replay {
        let c = r.get("case").unwrap_or(&r);
        if c.get("kind").and_then(|k| k.as_str()) == Some("twin") {
            let mut t = match mk(0) {
                Ok(t) => t,
                Err(e) => {
                    eprintln!("infrastructure: {}", e);
                    return 2;
                }
            };
            let res = exec_twin(&mut t, &j2case(c), &active);
            crate::outln!("{}", serde_json::to_string_pretty(res.trace.as_ref().unwrap_or(&Value::Null)).unwrap());
            return match res.verdict {
                Verdict::Pass => {
                    crate::outln!("replay: PASS");
                    0
                }
                Verdict::Fail { what, sig } => {
                    crate::outln!("replay: FAIL [{}] {}", sig, what);
                    1
                }
                Verdict::Infra(m) => {
                    crate::outln!("replay: inconclusive {}", m);
                    2
                }
            };
        }
        let mut e = ev.lock().unwrap();
        fixed_checks(&mut e, &active);
        return e.exit_code();
    }
    {
        let mut e = ev.lock().unwrap();
        fixed_checks(&mut e, &active);
        return_shapes(&mut e, tier, seed);
        super::c07b::phase_with(&mut e, tier, seed, true, "atomicity");
    }
    let cfg = LoopCfg { cases: tier.pick(1500, 30000), workers: 7, max_shrink_execs: 200, max_violations: std::env::var("FVH_MAX_VIOL").ok().and_then(|s| s.parse().ok()).unwrap_or(10) };
    let max_len = tier.pick(20, 40);
    let active_ref = &active;
    crate::driver::run_cases(&ev, &cfg, || twin_case(max_len), mk, |t, c: &TwinCase| exec_twin(t, c, active_ref), case2j);
    let e = ev.lock().unwrap();
    let _ = e.write();
    e.exit_code()
}
