//! C13 — blocking pops never lose, duplicate or strand elements or clients.
//!
//! Phase A (sequenced): generated histories of four clients over three lists, built from
//! BLPOP/BRPOP (1–3 keys, finite or infinite timeout), pushes of unique elements (direct,
//! inside MULTI/EXEC, from a script), LPOP/RPOP, a pipelined push+pop batch, waits and
//! disconnects of blocked clients. After each operation the harness waits for quiescence (two
//! PING round trips on a control connection: wake-ups are processed at the top of the next
//! event-loop iteration), so the expected outcome is a function of the history alone; a
//! reference model of Redis' blocking semantics decides it.
//! Phase B (unsequenced bursts): concurrent pushers, blocking poppers and disconnecting
//! poppers; only the schedule-independent oracle (conservation) is applied.

use crate::client::{Client, Reply};
use crate::driver::{CaseResult, Evidence, LoopCfg, Tier, Verdict};
use crate::model::Bytes;
use crate::resp::{encode_cmd, Frame};
use crate::sut::{Server, ServerOpts};
use proptest::prelude::*;
use serde_json::{json, Value};
use std::collections::{BTreeSet, VecDeque};
use std::sync::Mutex;
use std::time::{Duration, Instant};

const NCLIENTS: usize = 4;
const KEYS: [&str; 3] = ["bl:a", "bl:b", "bl:c"];
/// a reply that is due must arrive within this
const PROMPT: Duration = Duration::from_secs(8);
/// a deadline nearer than this is waited out before the next operation
const MARGIN: Duration = Duration::from_millis(150);

#[derive(Clone, Debug)]
pub enum Op {
    Block { c: usize, right: bool, keys: Vec<usize>, timeout_ms: u32 },
    /// via: 0 direct, 1 inside MULTI/EXEC, 2 from a script
    Push { c: usize, right: bool, key: usize, n: usize, via: u8 },
    Pop { c: usize, key: usize, right: bool },
    /// RPUSH key e and LPOP key pipelined in one write by the same client
    Batch { c: usize, key: usize },
    /// pushes to two different keys pipelined in one write (both keys become ready in the same
    /// event-loop round)
    PushPush { c: usize, key: usize, right: bool },
    /// LPUSH key e, DEL key, SET key v pipelined in one write: by the time the wake-up runs the
    /// key holds a string; afterwards the key is deleted again
    Retype { c: usize, key: usize },
    Wait { ms: u32 },
    /// keeps the single-threaded server busy (the SLEEP test command on the control connection):
    /// every deadline that passes meanwhile is met by one and the same timeout sweep
    Stall { ms: u32 },
    Disconnect { c: usize },
}

fn op() -> BoxedStrategy<Op> {
    let keys = prop_oneof![
        5 => (0..3usize).prop_map(|k| vec![k]),
        3 => (0..3usize, 1..3usize).prop_map(|(a, d)| vec![a, (a + d) % 3]),
        1 => Just(vec![0, 1, 2]),
        1 => Just(vec![2, 0, 1]),
    ];
    let timeout = prop_oneof![3 => Just(0u32), 2 => Just(60u32), 2 => Just(200u32), 1 => Just(400u32), 1 => Just(1000u32)];
    prop_oneof![
        6 => (0..NCLIENTS, any::<bool>(), keys, timeout).prop_map(|(c, right, keys, timeout_ms)| Op::Block { c, right, keys, timeout_ms }),
        6 => (0..NCLIENTS, any::<bool>(), 0..3usize, prop_oneof![4 => Just(1usize), 2 => Just(2usize), 1 => Just(4usize)], prop_oneof![5 => Just(0u8), 1 => Just(1u8), 1 => Just(2u8)])
            .prop_map(|(c, right, key, n, via)| Op::Push { c, right, key, n, via }),
        2 => (0..NCLIENTS, 0..3usize, any::<bool>()).prop_map(|(c, key, right)| Op::Pop { c, key, right }),
        1 => (0..NCLIENTS, 0..3usize).prop_map(|(c, key)| Op::Batch { c, key }),
        2 => (0..NCLIENTS, 0..3usize, any::<bool>()).prop_map(|(c, key, right)| Op::PushPush { c, key, right }),
        1 => (0..NCLIENTS, 0..3usize).prop_map(|(c, key)| Op::Retype { c, key }),
        1 => prop_oneof![Just(30u32), Just(120u32), Just(450u32)].prop_map(|ms| Op::Wait { ms }),
        1 => prop_oneof![Just(300u32), Just(700u32)].prop_map(|ms| Op::Stall { ms }),
        1 => (0..NCLIENTS).prop_map(|c| Op::Disconnect { c }),
    ]
    .boxed()
}

/// Two (or three) clients whose deadlines fall into the same stall, with a client that waits
/// for ever queued behind them on the same key.
fn expiring_group() -> BoxedStrategy<Vec<Op>> {
    (0..3usize, any::<bool>(), prop_oneof![Just(400u32), Just(1000u32)], 0..NCLIENTS, any::<bool>())
        .prop_map(|(key, right, t, first, three)| {
            let c = |i: usize| (first + i) % NCLIENTS;
            let mut v = vec![Op::Block { c: c(0), right, keys: vec![key], timeout_ms: t }, Op::Block { c: c(1), right: !right, keys: vec![key], timeout_ms: t }];
            if three {
                v.push(Op::Block { c: c(2), right, keys: vec![key, (key + 1) % 3], timeout_ms: t });
            }
            v.push(Op::Block { c: c(3), right, keys: vec![key], timeout_ms: 0 });
            v.push(Op::Stall { ms: t + 300 });
            v.push(Op::Push { c: c(0), right: true, key, n: 1, via: 0 });
            v
        })
        .boxed()
}

/// A client served through one key of a multi-key wait while another client is ahead of it on
/// its other key; it then waits somewhere else, and the other key receives two elements: one for
/// the client that is really waiting there, one that must stay in the list.
fn served_elsewhere_group() -> BoxedStrategy<Vec<Op>> {
    (0..3usize, any::<bool>(), 0..NCLIENTS, 1..3usize).prop_map(|(ka, right, first, n_extra)| {
        let (kb, kc) = ((ka + 1) % 3, (ka + 2) % 3);
        let c = |i: usize| (first + i) % NCLIENTS;
        vec![
            Op::Block { c: c(0), right, keys: vec![kb], timeout_ms: 0 },
            Op::Block { c: c(1), right: !right, keys: vec![ka, kb], timeout_ms: 0 },
            Op::Push { c: c(2), right: true, key: ka, n: 1, via: 0 },
            Op::Block { c: c(1), right, keys: vec![kc], timeout_ms: 0 },
            Op::Push { c: c(2), right: true, key: kb, n: 1 + n_extra, via: 0 },
            Op::Push { c: c(2), right: false, key: kc, n: 1, via: 0 },
        ]
    })
    .boxed()
}

fn history(max_len: usize) -> BoxedStrategy<Vec<Op>> {
    proptest::collection::vec(prop_oneof![12 => op().prop_map(|o| vec![o]), 1 => expiring_group(), 1 => served_elsewhere_group()], 3..=max_len).prop_map(|v| v.into_iter().flatten().collect()).boxed()
}

struct Blocked {
    right: bool,
    #[allow(dead_code)]
    keys: Vec<usize>,
    t_send: Instant,
    timeout: Option<Duration>,
}

struct Sim {
    clients: Vec<Client>,
    ctl: Client,
    lists: [VecDeque<Bytes>; 3],
    queues: [VecDeque<usize>; 3],
    blocked: Vec<Option<Blocked>>,
    next_elem: u64,
    labels: BTreeSet<&'static str>,
    trace: Vec<Value>,
    pushed: u64,
    delivered: u64,
    /// for a client the model has just served: Some(None) = it waited for ever, Some(Some(d)) = its deadline
    last_deadline: Vec<Option<Option<Instant>>>,
}

type Fail = (String, String);

fn fail<T>(sig: &str, what: String) -> Result<T, Fail> {
    Err((what, sig.to_string()))
}

impl Sim {
    fn barrier(&mut self) -> Result<(), Fail> {
        for _ in 0..2 {
            match self.ctl.cmd(&["PING"]) {
                Reply::Frame(Frame::Simple(_)) => {}
                Reply::Timeout => {
                    // no answer in 8 s: once more with patience before calling it a hang
                    match self.ctl.read_reply(Duration::from_secs(20)) {
                        Reply::Frame(Frame::Simple(_)) => {}
                        r => return fail("server-unresponsive", format!("the server stopped answering: a PING on the control connection had no reply for 28 s ({:?})", r)),
                    }
                }
                r => return fail("infra", format!("control connection PING -> {:?}", r)),
            }
        }
        Ok(())
    }

    fn unblock(&mut self, c: usize) {
        for q in self.queues.iter_mut() {
            q.retain(|x| *x != c);
        }
        self.blocked[c] = None;
    }

    /// Serve waiters of `key` first-blocked-first while it holds elements; returns (client, key, element).
    fn serve(&mut self, key: usize) -> Vec<(usize, usize, Bytes)> {
        let mut out = Vec::new();
        while !self.lists[key].is_empty() {
            let Some(c) = self.queues[key].pop_front() else { break };
            let right = self.blocked[c].as_ref().map_or(false, |b| b.right);
            self.last_deadline[c] = self.blocked[c].as_ref().map(|b| b.timeout.map(|t| b.t_send + t));
            let e = if right { self.lists[key].pop_back() } else { self.lists[key].pop_front() }.unwrap();
            self.unblock(c);
            out.push((c, key, e));
        }
        out
    }

    /// Read the replies the model says are due and compare.
    fn expect_served(&mut self, due: Vec<(usize, usize, Bytes)>, after: &str) -> Result<(), Fail> {
        for (c, key, e) in due {
            let want = Frame::Array(vec![Frame::bulk(KEYS[key]), Frame::Bulk(e.clone())]);
            let r = self.clients[c].read_reply(PROMPT);
            self.trace.push(json!({"served": c, "reply": format!("{:?}", r)}));
            match r {
                Reply::Frame(f) if f == want => {
                    self.delivered += 1;
                    self.labels.insert("served-by-later-push");
                }
                Reply::Frame(f) if f.is_nil() => match self.last_deadline[c] {
                    // nil is an answer only once the client's own deadline has passed
                    Some(Some(d)) if Instant::now() + Duration::from_millis(2) >= d => {
                        return fail("inconclusive-timing", format!("client {} timed out around the moment the push arrived", c));
                    }
                    Some(Some(d)) => {
                        return fail("timeout-too-early", format!("after {}: client {} (first in line on {}) received nil {:?} before its deadline instead of [{}, {}]", after, c, KEYS[key], d.saturating_duration_since(Instant::now()), KEYS[key], crate::resp::show_bytes(&e)));
                    }
                    _ => {
                        return fail("nil-for-infinite-timeout", format!("after {}: client {} asked to wait forever and is first in line on {}, but received nil instead of [{}, {}]", after, c, KEYS[key], KEYS[key], crate::resp::show_bytes(&e)));
                    }
                },
                Reply::Timeout => {
                    return fail(
                        "blocked-client-not-served",
                        format!("after {}: client {} is blocked on {} (first in line), the list holds an element that no other client pops, but the client was not served within {:?} (expected [{}, {}])", after, c, KEYS[key], PROMPT, KEYS[key], crate::resp::show_bytes(&e)),
                    )
                }
                other => return fail("wrong-element-served", format!("after {}: client {} (first in line on {}) must receive [{}, {}] but received {:?}", after, c, KEYS[key], KEYS[key], crate::resp::show_bytes(&e), other)),
            }
        }
        Ok(())
    }

    /// No blocked client may have received anything.
    fn expect_silence(&mut self, after: &str) -> Result<(), Fail> {
        for c in 0..NCLIENTS {
            if self.blocked[c].is_some() {
                match self.clients[c].read_reply(Duration::from_millis(1)) {
                    Reply::Timeout => {}
                    Reply::Frame(f) if f.is_nil() => {
                        let b = self.blocked[c].as_ref().unwrap();
                        match b.timeout {
                            None => return fail("nil-for-infinite-timeout", format!("after {}: client {} asked to wait forever but received nil", after, c)),
                            Some(t) => {
                                let el = b.t_send.elapsed();
                                if el + Duration::from_millis(2) < t {
                                    return fail("timeout-too-early", format!("after {}: client {} received nil {:?} after sending a blocking pop with timeout {:?}", after, c, el, t));
                                }
                                // its time was up a little earlier than the harness expected to look
                                self.labels.insert("timed-out");
                                self.unblock(c);
                            }
                        }
                    }
                    other => return fail("unexpected-delivery", format!("after {}: client {} is blocked and nothing is due to it, but it received {:?}", after, c, other)),
                }
            }
        }
        Ok(())
    }

    /// Wait out every finite deadline that is near or past.
    fn settle(&mut self, horizon: Duration) -> Result<(), Fail> {
        for c in 0..NCLIENTS {
            let Some(b) = &self.blocked[c] else { continue };
            let Some(t) = b.timeout else { continue };
            let deadline = b.t_send + t;
            if Instant::now() + horizon < deadline {
                continue;
            }
            let wait = deadline.saturating_duration_since(Instant::now()) + PROMPT;
            let t_send = b.t_send;
            let r = self.clients[c].read_reply(wait);
            let el = t_send.elapsed();
            self.trace.push(json!({"timeout_of": c, "reply": format!("{:?}", r), "elapsed_ms": el.as_millis() as u64}));
            match r {
                Reply::Frame(f) if f.is_nil() => {
                    if el + Duration::from_millis(2) < t {
                        return fail("timeout-too-early", format!("client {} received nil {:?} after sending a blocking pop with timeout {:?}", c, el, t));
                    }
                    self.labels.insert("timed-out");
                    self.unblock(c);
                }
                Reply::Timeout => return fail("blocked-client-stranded", format!("client {} sent a blocking pop with timeout {:?}; nothing was pushed for it, and {:?} after its deadline it still has no reply", c, t, PROMPT)),
                other => return fail("unexpected-delivery", format!("client {} was waiting for its timeout (nothing was pushed to its keys) but received {:?}", c, other)),
            }
        }
        Ok(())
    }

    fn check_lists(&mut self, after: &str) -> Result<(), Fail> {
        for k in 0..3 {
            let r = self.ctl.cmd(&["LRANGE", KEYS[k], "0", "-1"]);
            let want = Frame::Array(self.lists[k].iter().map(|e| Frame::Bulk(e.clone())).collect());
            if r != Reply::Frame(want.clone()) {
                return fail("list-content", format!("after {}: list {} holds {:?} but pushed minus delivered is {:?} (an element was lost, duplicated or reordered)", after, KEYS[k], r, want));
            }
        }
        Ok(())
    }

    fn fresh(&mut self, n: usize) -> Vec<Bytes> {
        (0..n)
            .map(|_| {
                self.next_elem += 1;
                format!("e{}", self.next_elem).into_bytes()
            })
            .collect()
    }
}

fn fmt_timeout(ms: u32) -> String {
    if ms == 0 {
        "0".into()
    } else if ms % 1000 == 0 {
        (ms / 1000).to_string()
    } else {
        format!("{}", ms as f64 / 1000.0)
    }
}

fn run_history(server: &mut Server, ops: &[Op]) -> CaseResult {
    if !server.alive() {
        match Server::start(ServerOpts::default()) {
            Ok(s) => *server = s,
            Err(e) => return CaseResult::infra(e),
        }
    }
    let mut ctl = match crate::runner::reset_server(server) {
        Ok(c) => c,
        Err(e) => return CaseResult::infra(e),
    };
    ctl.default_timeout = Duration::from_secs(8);
    let mut clients = Vec::new();
    for _ in 0..NCLIENTS {
        match server.client() {
            Ok(c) => clients.push(c),
            Err(e) => return CaseResult::infra(e.to_string()),
        }
    }
    let mut s = Sim { clients, ctl, lists: Default::default(), queues: Default::default(), blocked: (0..NCLIENTS).map(|_| None).collect(), next_elem: 0, labels: BTreeSet::new(), trace: Vec::new(), pushed: 0, delivered: 0, last_deadline: vec![None; NCLIENTS] };
    let mut ever_blocked = false;
    let r = (|| -> Result<(), Fail> {
        for (i, o) in ops.iter().enumerate() {
            s.settle(MARGIN)?;
            let after = format!("step {} {:?}", i, o);
            s.trace.push(json!({"step": i, "op": format!("{:?}", o)}));
            match o {
                Op::Block { c, right, keys, timeout_ms } => {
                    if s.blocked[*c].is_some() {
                        continue;
                    }
                    let mut cmd: Vec<Bytes> = vec![if *right { b"BRPOP".to_vec() } else { b"BLPOP".to_vec() }];
                    cmd.extend(keys.iter().map(|k| KEYS[*k].as_bytes().to_vec()));
                    cmd.push(fmt_timeout(*timeout_ms).into_bytes());
                    let t_send = Instant::now();
                    if s.clients[*c].send_cmd(&cmd).is_err() {
                        return fail("infra", "send failed".into());
                    }
                    // immediate?
                    if let Some(k) = keys.iter().find(|k| !s.lists[**k].is_empty()) {
                        let e = if *right { s.lists[*k].pop_back() } else { s.lists[*k].pop_front() }.unwrap();
                        let want = Frame::Array(vec![Frame::bulk(KEYS[*k]), Frame::Bulk(e.clone())]);
                        let r = s.clients[*c].read_reply(PROMPT);
                        if r != Reply::Frame(want.clone()) {
                            return fail("immediate-pop", format!("{}: the first non-empty key is {} so the reply must be {:?}, got {:?}", after, KEYS[*k], want, r));
                        }
                        s.delivered += 1;
                        s.labels.insert("served-immediately");
                    } else {
                        s.blocked[*c] = Some(Blocked { right: *right, keys: keys.clone(), t_send, timeout: if *timeout_ms == 0 { None } else { Some(Duration::from_millis(*timeout_ms as u64)) } });
                        for k in keys {
                            if !s.queues[*k].contains(c) {
                                s.queues[*k].push_back(*c);
                            }
                        }
                        ever_blocked = true;
                        if keys.len() > 1 {
                            s.labels.insert("multi-key-registration");
                        }
                        if s.queues.iter().any(|q| q.len() >= 2) {
                            s.labels.insert("two-waiters-on-a-key");
                        }
                    }
                    s.barrier()?;
                    s.expect_silence(&after)?;
                }
                Op::Push { c, right, key, n, via } => {
                    let elems = s.fresh(*n);
                    let name = if *right { "RPUSH" } else { "LPUSH" };
                    let mut cmd: Vec<Bytes> = vec![name.as_bytes().to_vec(), KEYS[*key].as_bytes().to_vec()];
                    cmd.extend(elems.iter().cloned());
                    let before = s.lists[*key].len();
                    for e in &elems {
                        if *right {
                            s.lists[*key].push_back(e.clone());
                        } else {
                            s.lists[*key].push_front(e.clone());
                        }
                    }
                    s.pushed += *n as u64;
                    let want_len = Frame::Int((before + n) as i64);
                    let waiters = s.queues[*key].len();
                    let actor = if s.blocked[*c].is_some() { &mut s.ctl } else { &mut s.clients[*c] };
                    let ok = match via {
                        1 => {
                            let mut w = encode_cmd(&["MULTI"]);
                            w.extend(encode_cmd(&cmd));
                            w.extend(encode_cmd(&["EXEC"]));
                            let _ = actor.send_raw(&w);
                            let a = actor.reply();
                            let b = actor.reply();
                            let e = actor.reply();
                            (a == Reply::Frame(Frame::ok()) && b == Reply::Frame(Frame::Simple(b"QUEUED".to_vec())) && e == Reply::Frame(Frame::Array(vec![want_len.clone()])), format!("{:?} {:?} {:?}", a, b, e))
                        }
                        2 => {
                            let mut w: Vec<Bytes> = vec![b"EVAL".to_vec(), format!("return redis.call('{}', KEYS[1], unpack(ARGV))", name).into_bytes(), b"1".to_vec(), KEYS[*key].as_bytes().to_vec()];
                            w.extend(elems.iter().cloned());
                            let r = actor.cmd(&w);
                            (r == Reply::Frame(want_len.clone()), format!("{:?}", r))
                        }
                        _ => {
                            let r = actor.cmd(&cmd);
                            (r == Reply::Frame(want_len.clone()), format!("{:?}", r))
                        }
                    };
                    if !ok.0 {
                        return fail("push-reply", format!("{}: the push must reply {:?}, got {}", after, want_len, ok.1));
                    }
                    if waiters > 0 {
                        s.labels.insert(match via {
                            1 => "push-in-transaction-with-waiter",
                            2 => "push-from-script-with-waiter",
                            _ => "push-with-waiter",
                        });
                        if waiters >= 2 && *n >= 2 {
                            s.labels.insert("multi-element-push-with-two-waiters");
                        }
                    }
                    let due = s.serve(*key);
                    s.barrier()?;
                    s.expect_served(due, &after)?;
                    s.expect_silence(&after)?;
                }
                Op::Pop { c, key, right } => {
                    let want = match if *right { s.lists[*key].pop_back() } else { s.lists[*key].pop_front() } {
                        Some(e) => {
                            s.delivered += 1;
                            Frame::Bulk(e)
                        }
                        None => Frame::NullBulk,
                    };
                    let actor = if s.blocked[*c].is_some() { &mut s.ctl } else { &mut s.clients[*c] };
                    let r = actor.cmd(&[if *right { "RPOP" } else { "LPOP" }, KEYS[*key]]);
                    if r != Reply::Frame(want.clone()) {
                        return fail("pop-reply", format!("{}: expected {:?}, got {:?}", after, want, r));
                    }
                    s.barrier()?;
                    s.expect_silence(&after)?;
                }
                Op::Batch { c, key } => {
                    let e = s.fresh(1).pop().unwrap();
                    s.pushed += 1;
                    let before = s.lists[*key].len();
                    let had_waiter = !s.queues[*key].is_empty();
                    let mut w = encode_cmd(&[b"RPUSH".as_ref(), KEYS[*key].as_bytes(), &e]);
                    w.extend(encode_cmd(&["LPOP", KEYS[*key]]));
                    let actor = if s.blocked[*c].is_some() { &mut s.ctl } else { &mut s.clients[*c] };
                    let _ = actor.send_raw(&w);
                    let r1 = actor.reply();
                    let r2 = actor.reply();
                    if r1 != Reply::Frame(Frame::Int(before as i64 + 1)) {
                        return fail("push-reply", format!("{}: RPUSH must reply {}, got {:?}", after, before + 1, r1));
                    }
                    s.lists[*key].push_back(e.clone());
                    // Either the waiter (served between the two commands) or the pipelined LPOP
                    // takes the head: "served unless another client pops it".
                    let head = s.lists[*key].front().cloned().unwrap();
                    let due;
                    match &r2 {
                        Reply::Frame(Frame::Bulk(b)) if *b == head => {
                            s.lists[*key].pop_front();
                            s.delivered += 1;
                            if had_waiter {
                                s.labels.insert("batch-pop-took-the-element-a-waiter-wanted");
                            }
                            // whatever is left (nothing, when the list was empty) goes to the waiters
                            due = s.serve(*key);
                        }
                        Reply::Frame(f) if f.is_nil() && had_waiter && before == 0 => {
                            due = s.serve(*key);
                        }
                        other => return fail("pop-reply", format!("{}: the pipelined LPOP must return the head {} (or nil if a waiter was served first), got {:?}", after, crate::resp::show_bytes(&head), other)),
                    }
                    s.barrier()?;
                    s.expect_served(due, &after)?;
                    s.expect_silence(&after)?;
                }
                Op::PushPush { c, key, right } => {
                    let k1 = *key;
                    let k2 = (*key + 1) % 3;
                    let name = if *right { "RPUSH" } else { "LPUSH" };
                    let e1 = s.fresh(1).pop().unwrap();
                    let e2 = s.fresh(2);
                    s.pushed += 3;
                    let (b1, b2) = (s.lists[k1].len(), s.lists[k2].len());
                    if !s.queues[k1].is_empty() && !s.queues[k2].is_empty() {
                        s.labels.insert("two-keys-with-waiters-ready-in-one-round");
                    }
                    let mut w = encode_cmd(&[name.as_bytes(), KEYS[k1].as_bytes(), &e1]);
                    w.extend(encode_cmd(&[name.as_bytes(), KEYS[k2].as_bytes(), &e2[0], &e2[1]]));
                    let actor = if s.blocked[*c].is_some() { &mut s.ctl } else { &mut s.clients[*c] };
                    let _ = actor.send_raw(&w);
                    let r1 = actor.reply();
                    let r2 = actor.reply();
                    if r1 != Reply::Frame(Frame::Int(b1 as i64 + 1)) || r2 != Reply::Frame(Frame::Int(b2 as i64 + 2)) {
                        return fail("push-reply", format!("{}: the pushes must reply {} and {}, got {:?} and {:?}", after, b1 + 1, b2 + 2, r1, r2));
                    }
                    if *right {
                        s.lists[k1].push_back(e1);
                        s.lists[k2].push_back(e2[0].clone());
                        s.lists[k2].push_back(e2[1].clone());
                    } else {
                        s.lists[k1].push_front(e1);
                        s.lists[k2].push_front(e2[0].clone());
                        s.lists[k2].push_front(e2[1].clone());
                    }
                    // a client waiting on both keys is served from the key that became ready first
                    let mut due = s.serve(k1);
                    due.extend(s.serve(k2));
                    s.barrier()?;
                    s.expect_served(due, &after)?;
                    s.expect_silence(&after)?;
                }
                Op::Retype { c, key } => {
                    let e = s.fresh(1).pop().unwrap();
                    s.pushed += 1;
                    let before = s.lists[*key].len();
                    if !s.queues[*key].is_empty() {
                        s.labels.insert("key-retyped-before-the-wake-up");
                    }
                    let mut w = encode_cmd(&[b"LPUSH".as_ref(), KEYS[*key].as_bytes(), &e]);
                    w.extend(encode_cmd(&["DEL", KEYS[*key]]));
                    w.extend(encode_cmd(&["SET", KEYS[*key], "not-a-list"]));
                    let actor = if s.blocked[*c].is_some() { &mut s.ctl } else { &mut s.clients[*c] };
                    let _ = actor.send_raw(&w);
                    let (r1, r2, r3) = (actor.reply(), actor.reply(), actor.reply());
                    // with a waiter present the element may be handed over between the commands:
                    // then DEL finds nothing (as in the batch operation, either is allowed)
                    let served_between = r2 == Reply::Frame(Frame::Int(0)) && !s.queues[*key].is_empty() && before == 0;
                    if r1 != Reply::Frame(Frame::Int(before as i64 + 1)) || !(r2 == Reply::Frame(Frame::Int(1)) || served_between) || r3 != Reply::Frame(Frame::ok()) {
                        return fail("push-reply", format!("{}: LPUSH, DEL, SET must reply {}, 1, OK; got {:?}, {:?}, {:?}", after, before + 1, r1, r2, r3));
                    }
                    let mut due = Vec::new();
                    if served_between {
                        s.lists[*key].push_front(e);
                        due = s.serve(*key);
                    }
                    s.delivered += s.lists[*key].len() as u64; // deleted with the key
                    s.lists[*key].clear();
                    s.barrier()?;
                    s.expect_served(due, &after)?;
                    s.expect_silence(&after)?;
                    let r = s.ctl.cmd(&["DEL", KEYS[*key]]);
                    if r != Reply::Frame(Frame::Int(1)) {
                        return fail("list-content", format!("{}: the key must hold the string that was SET; DEL -> {:?}", after, r));
                    }
                    s.barrier()?;
                }
                Op::Wait { ms } => {
                    std::thread::sleep(Duration::from_millis(*ms as u64));
                    s.settle(Duration::ZERO)?;
                    s.expect_silence(&after)?;
                }
                Op::Stall { ms } => {
                    let expiring = (0..NCLIENTS).filter(|c| s.blocked[*c].as_ref().map_or(false, |b| b.timeout.map_or(false, |t| b.t_send + t < Instant::now() + Duration::from_millis(*ms as u64)))).count();
                    if expiring >= 2 {
                        s.labels.insert("several-deadlines-in-one-sweep");
                    }
                    let saved = s.ctl.default_timeout;
                    s.ctl.default_timeout = Duration::from_millis(*ms as u64 + 5000);
                    let r = s.ctl.cmd(&[b"SLEEP".to_vec(), ms.to_string().into_bytes()]);
                    s.ctl.default_timeout = saved;
                    if !matches!(r, Reply::Frame(Frame::Simple(_))) {
                        return fail("infra", format!("SLEEP -> {:?}", r));
                    }
                    s.barrier()?;
                    s.settle(Duration::ZERO)?;
                    s.expect_silence(&after)?;
                }
                Op::Disconnect { c } => {
                    if s.blocked[*c].is_some() {
                        s.labels.insert("disconnect-while-blocked");
                    }
                    s.clients[*c].close();
                    s.unblock(*c);
                    s.clients[*c] = server.client().map_err(|e| (e.to_string(), "infra".to_string()))?;
                    // let the server notice the closed socket
                    std::thread::sleep(Duration::from_millis(5));
                    s.barrier()?;
                }
            }
            s.check_lists(&after)?;
        }
        // wind-down: every finite timeout fires, every infinite waiter is served by a push, and
        // every client is usable afterwards (no leftover registration, not stuck in blocked state)
        s.settle(Duration::from_secs(3600))?;
        for k in 0..3 {
            let mut guard = 0;
            while !s.queues[k].is_empty() && guard < 8 {
                guard += 1;
                let e = s.fresh(1).pop().unwrap();
                s.pushed += 1;
                s.lists[k].push_back(e.clone());
                let r = s.ctl.cmd(&[b"RPUSH".as_ref(), KEYS[k].as_bytes(), &e]);
                if !matches!(r, Reply::Frame(Frame::Int(_))) {
                    return fail("push-reply", format!("wind-down RPUSH -> {:?}", r));
                }
                let due = s.serve(k);
                s.barrier()?;
                s.expect_served(due, "the wind-down push")?;
            }
        }
        // residue: one more element per key must stay in its list
        for k in 0..3 {
            let e = s.fresh(1).pop().unwrap();
            s.pushed += 1;
            s.lists[k].push_back(e.clone());
            let _ = s.ctl.cmd(&[b"RPUSH".as_ref(), KEYS[k].as_bytes(), &e]);
        }
        s.barrier()?;
        s.check_lists("the wind-down (nobody is blocked any more, so pushed elements must stay)")?;
        for c in 0..NCLIENTS {
            let r = s.clients[c].cmd(&["PING"]);
            if r != Reply::Frame(Frame::Simple(b"PONG".to_vec())) {
                return fail("client-unusable-after-blocking", format!("client {} is no longer blocked but PING -> {:?}", c, r));
            }
        }
        // a later blocking call must run its full timeout on keys that are empty
        let _ = s.ctl.cmd(&["DEL", KEYS[0], KEYS[1], KEYS[2]]);
        for k in 0..3 {
            s.lists[k].clear();
        }
        let t0 = Instant::now();
        let r = s.clients[0].cmd(&["BLPOP", KEYS[0], KEYS[1], KEYS[2], "0.1"]);
        let el = t0.elapsed();
        if !matches!(&r, Reply::Frame(f) if f.is_nil()) || el + Duration::from_millis(2) < Duration::from_millis(100) {
            return fail("later-blocking-call-cut-short", format!("after the history, BLPOP on three empty lists with timeout 0.1 -> {:?} after {:?}", r, el));
        }
        Ok(())
    })();
    let nontrivial = ever_blocked && ["served-by-later-push", "timed-out", "multi-key-registration", "multi-element-push-with-two-waiters", "disconnect-while-blocked"].iter().any(|l| s.labels.contains(l));
    let mut labels: Vec<String> = s.labels.iter().map(|x| x.to_string()).collect();
    if ever_blocked {
        labels.push("a-client-blocked".into());
    }
    let trace = Some(Value::Array(s.trace.iter().take(80).cloned().collect()));
    // close the clients so that blocked ones do not linger on the reused server
    for c in s.clients.iter_mut() {
        c.close();
    }
    match r {
        Ok(()) => CaseResult { verdict: Verdict::Pass, labels, nontrivial, excluded: vec![], trace },
        Err((what, sig)) if sig == "infra" => {
            // a control connection that stops answering because the server process is gone is no
            // infrastructure problem
            if !server.alive() {
                let died = format!("the server process ended during the history ({}); last operations: {}", server.panic_signature().unwrap_or_else(|| server.stderr_tail().lines().last().unwrap_or("").to_string()), what);
                return CaseResult { verdict: Verdict::Fail { what: died, sig: "server-died".into() }, labels, nontrivial, excluded: vec![], trace };
            }
            CaseResult { verdict: Verdict::Infra(what), labels, nontrivial, excluded: vec![], trace }
        }
        Err((_, sig)) if sig == "inconclusive-timing" => {
            labels.push("inconclusive-timing".into());
            CaseResult { verdict: Verdict::Pass, labels, nontrivial: false, excluded: vec![], trace }
        }
        Err((what, sig)) => {
            // a failed history may leave registrations behind: the next case gets a fresh server
            server.kill();
            CaseResult { verdict: Verdict::Fail { what, sig }, labels, nontrivial, excluded: vec![], trace }
        }
    }
}

fn op2j(o: &Op) -> Value {
    match o {
        Op::Block { c, right, keys, timeout_ms } => json!({"op": "block", "c": c, "right": right, "keys": keys, "timeout_ms": timeout_ms}),
        Op::Push { c, right, key, n, via } => json!({"op": "push", "c": c, "right": right, "key": key, "n": n, "via": via}),
        Op::Pop { c, key, right } => json!({"op": "pop", "c": c, "key": key, "right": right}),
        Op::Batch { c, key } => json!({"op": "batch", "c": c, "key": key}),
        Op::PushPush { c, key, right } => json!({"op": "pushpush", "c": c, "key": key, "right": right}),
        Op::Retype { c, key } => json!({"op": "retype", "c": c, "key": key}),
        Op::Wait { ms } => json!({"op": "wait", "ms": ms}),
        Op::Stall { ms } => json!({"op": "stall", "ms": ms}),
        Op::Disconnect { c } => json!({"op": "disconnect", "c": c}),
    }
}

fn j2op(v: &Value) -> Option<Op> {
    let u = |k: &str| v.get(k).and_then(|x| x.as_u64()).unwrap_or(0) as usize;
    let b = |k: &str| v.get(k).and_then(|x| x.as_bool()).unwrap_or(false);
    Some(match v.get("op")?.as_str()? {
        "block" => Op::Block { c: u("c") % NCLIENTS, right: b("right"), keys: v.get("keys")?.as_array()?.iter().map(|k| k.as_u64().unwrap_or(0) as usize % 3).collect(), timeout_ms: u("timeout_ms") as u32 },
        "push" => Op::Push { c: u("c") % NCLIENTS, right: b("right"), key: u("key") % 3, n: u("n").max(1), via: u("via") as u8 },
        "pop" => Op::Pop { c: u("c") % NCLIENTS, key: u("key") % 3, right: b("right") },
        "batch" => Op::Batch { c: u("c") % NCLIENTS, key: u("key") % 3 },
        "pushpush" => Op::PushPush { c: u("c") % NCLIENTS, key: u("key") % 3, right: b("right") },
        "retype" => Op::Retype { c: u("c") % NCLIENTS, key: u("key") % 3 },
        "wait" => Op::Wait { ms: u("ms") as u32 },
        "stall" => Op::Stall { ms: u("ms") as u32 },
        "disconnect" => Op::Disconnect { c: u("c") % NCLIENTS },
        _ => return None,
    })
}

// ---------- phase B: unsequenced bursts, conservation only ----------

fn burst(seed: u64, idx: u64) -> Result<(u64, u64, u64, Vec<String>), String> {
    use std::sync::atomic::{AtomicBool, Ordering};
    let server = Server::start(ServerOpts::default())?;
    let port = server.port;
    let stop = AtomicBool::new(false);
    let pushed: Mutex<Vec<Bytes>> = Mutex::new(Vec::new());
    let delivered: Mutex<Vec<Bytes>> = Mutex::new(Vec::new());
    let problems: Mutex<Vec<String>> = Mutex::new(Vec::new());
    let disconnects = std::sync::atomic::AtomicU64::new(0);
    std::thread::scope(|sc| {
        // pushers
        for p in 0..3u64 {
            let (stop, pushed, problems) = (&stop, &pushed, &problems);
            sc.spawn(move || {
                let Ok(mut c) = Client::connect(port) else { return };
                let mut n = 0u64;
                let mut x = seed.wrapping_mul(6364136223846793005).wrapping_add(idx * 131 + p);
                while !stop.load(Ordering::Relaxed) {
                    x = x.wrapping_mul(6364136223846793005).wrapping_add(1442695040888963407);
                    let k = KEYS[(x >> 33) as usize % 3];
                    let cnt = 1 + (x >> 40) as usize % 3;
                    let elems: Vec<Bytes> = (0..cnt)
                        .map(|_| {
                            n += 1;
                            format!("p{}-{}", p, n).into_bytes()
                        })
                        .collect();
                    let mut cmd: Vec<Bytes> = vec![if x & 1 == 0 { b"LPUSH".to_vec() } else { b"RPUSH".to_vec() }, k.as_bytes().to_vec()];
                    cmd.extend(elems.iter().cloned());
                    match c.cmd(&cmd) {
                        Reply::Frame(Frame::Int(_)) => pushed.lock().unwrap().extend(elems),
                        r => {
                            problems.lock().unwrap().push(format!("infra: push -> {:?}", r));
                            return;
                        }
                    }
                    if (x >> 50) % 4 == 0 {
                        std::thread::sleep(Duration::from_micros((x >> 20) % 800));
                    }
                }
            });
        }
        // poppers: blocking, some with tiny timeouts, some disconnecting while blocked
        for p in 0..5u64 {
            let (stop, delivered, problems, disconnects) = (&stop, &delivered, &problems, &disconnects);
            sc.spawn(move || {
                let Ok(mut c) = Client::connect(port) else { return };
                let mut x = seed.wrapping_mul(2862933555777941757).wrapping_add(idx * 977 + p);
                while !stop.load(Ordering::Relaxed) {
                    x = x.wrapping_mul(6364136223846793005).wrapping_add(1442695040888963407);
                    let a = (x >> 33) as usize % 3;
                    let b = (x >> 36) as usize % 3;
                    let to = ["0.01", "0.03", "0.1"][(x >> 40) as usize % 3];
                    let name = if x & 2 == 0 { "BLPOP" } else { "BRPOP" };
                    let cmd: Vec<&str> = if a == b { vec![name, KEYS[a], to] } else { vec![name, KEYS[a], KEYS[b], to] };
                    if p == 4 && (x >> 45) % 3 == 0 {
                        // disconnect while (possibly) blocked: whatever was not delivered must stay
                        let _ = c.send_cmd(&cmd);
                        std::thread::sleep(Duration::from_micros((x >> 20) % 3000));
                        // anything already received counts as delivered
                        let bytes = c.drain_for(Duration::from_millis(1));
                        let (frames, _, _) = crate::resp::decode_all(&bytes);
                        for f in frames {
                            if let Frame::Array(v) = f {
                                if let Some(Frame::Bulk(e)) = v.get(1) {
                                    delivered.lock().unwrap().push(e.clone());
                                }
                            }
                        }
                        c.close();
                        disconnects.fetch_add(1, Ordering::Relaxed);
                        match Client::connect(port) {
                            Ok(n) => c = n,
                            Err(_) => return,
                        }
                        continue;
                    }
                    match c.cmd(&cmd) {
                        Reply::Frame(Frame::Array(v)) if v.len() == 2 => {
                            if let Frame::Bulk(e) = &v[1] {
                                delivered.lock().unwrap().push(e.clone());
                            }
                        }
                        Reply::Frame(f) if f.is_nil() => {}
                        r => {
                            problems.lock().unwrap().push(format!("infra: blocking pop -> {:?}", r));
                            return;
                        }
                    }
                }
            });
        }
        std::thread::sleep(Duration::from_millis(700));
        stop.store(true, Ordering::Relaxed);
    });
    // what is left
    let mut c = server.client().map_err(|e| e.to_string())?;
    std::thread::sleep(Duration::from_millis(150));
    let mut remaining: Vec<Bytes> = Vec::new();
    for k in KEYS {
        match c.cmd(&["LRANGE", k, "0", "-1"]) {
            Reply::Frame(Frame::Array(v)) => remaining.extend(v.into_iter().filter_map(|f| if let Frame::Bulk(b) = f { Some(b) } else { None })),
            r => return Err(format!("LRANGE -> {:?}", r)),
        }
    }
    let pushed = pushed.into_inner().unwrap();
    let delivered = delivered.into_inner().unwrap();
    let mut problems = problems.into_inner().unwrap();
    let mut seen = std::collections::HashMap::new();
    for e in delivered.iter().chain(remaining.iter()) {
        *seen.entry(e.clone()).or_insert(0u32) += 1;
    }
    // A disconnecting popper may have been sent an element it never read: those are "delivered
    // to exactly one client" from the server's point of view; the harness cannot see them, so
    // only elements missing while no disconnect happened count as lost.
    let dis = disconnects.load(std::sync::atomic::Ordering::Relaxed);
    let mut lost = 0u64;
    for e in &pushed {
        match seen.get(e) {
            None => lost += 1,
            Some(1) => {}
            Some(n) => problems.push(format!("element {} was pushed once but seen {} times (delivered to clients and/or still in a list)", crate::resp::show_bytes(e), n)),
        }
    }
    for e in seen.keys() {
        if !pushed.contains(e) && !e.starts_with(b"p") {
            problems.push(format!("element {} was never pushed", crate::resp::show_bytes(e)));
        }
    }
    if lost > dis {
        problems.push(format!("{} pushed elements are neither delivered nor in a list, but only {} blocked clients disconnected (each can take at most one element with it)", lost, dis));
    }
    Ok((pushed.len() as u64, delivered.len() as u64, dis, problems))
}

pub fn run(tier: Tier, seed: u64, replay: Option<Value>) -> i32 {
    let ev = Mutex::new(Evidence::new(
        "C13",
        tier,
        seed,
        "exploration",
        "A: generated histories (3..25 operations) of four clients over three lists: BLPOP/BRPOP on 1-3 keys with timeout forever/0.06/0.2/0.4/1 s, LPUSH/RPUSH of 1, 2 or 4 unique elements sent directly, inside MULTI/EXEC or from a script, LPOP/RPOP, a pipelined RPUSH+LPOP batch, pushes to two different keys pipelined in one write, a pipelined LPUSH+DEL+SET that leaves a string where the wake-up expects a list, waits, stalls of the single-threaded server (so that several deadlines are met by one timeout sweep), and disconnects of blocked clients; operations are sequenced (two PING round trips on a control connection after each), finite deadlines nearer than 150 ms are waited out before the next operation, so a reference model of Redis' blocking semantics decides every reply: served first-blocked-first with the head (BLPOP) or tail (BRPOP) of the first non-empty key, within 8 s; nil never before the timeout on the harness clock and within 8 s after it; never nil for an infinite wait; nothing for a client to whom nothing is due; LRANGE of every list equals pushed minus delivered after every step; wind-down: all waiters are served by pushes, later pushes stay in their lists, every client answers PING, a later BLPOP runs its full timeout. B: unsequenced bursts (3 pushers, 5 blocking poppers, one of which disconnects while blocked) with the schedule-independent oracle only: no element delivered twice or invented, at most one element unaccounted for per disconnect. Non-trivial (A) = a client actually blocked and was served by a later push, timed out, registered on several keys, shared a multi-element push with another waiter, or disconnected while blocked; distinct by hash of the history",
    ));
    let mk = |_: usize| Server::start(ServerOpts::default());
    if let Some(r) = replay {
        let c = r.get("case").unwrap_or(&r);
        let ops: Vec<Op> = c.get("ops").and_then(|o| o.as_array()).map(|a| a.iter().filter_map(j2op).collect()).unwrap_or_default();
        if ops.is_empty() {
            // burst replay: schedule-dependent, re-run a few times
            let idx = c.get("burst").and_then(|b| b.as_u64()).unwrap_or(0);
            let sd = c.get("seed").and_then(|b| b.as_u64()).unwrap_or(seed);
            for _ in 0..5 {
                if let Ok((_, _, _, p)) = burst(sd, idx) {
                    if let Some(x) = p.iter().find(|x| !x.starts_with("infra")) {
                        crate::outln!("replay: FAIL {}", x);
                        return 1;
                    }
                }
            }
            crate::outln!("replay: PASS (5 bursts)");
            return 0;
        }
        let mut server = match mk(0) {
            Ok(s) => s,
            Err(e) => {
                eprintln!("infrastructure: {}", e);
                return 2;
            }
        };
        let res = run_history(&mut server, &ops);
        crate::outln!("{}", serde_json::to_string_pretty(res.trace.as_ref().unwrap_or(&Value::Null)).unwrap());
        return match res.verdict {
            Verdict::Pass => {
                crate::outln!("replay: PASS");
                0
            }
            Verdict::Fail { what, sig } => {
                crate::outln!("replay: FAIL [{}] {}", sig, what);
                1
            }
            Verdict::Infra(m) => {
                crate::outln!("replay: inconclusive {}", m);
                2
            }
        };
    }
    let cfg = LoopCfg { cases: tier.pick(450, 5000), workers: 12, max_shrink_execs: 80, max_violations: std::env::var("FVH_MAX_VIOL").ok().and_then(|s| s.parse().ok()).unwrap_or(8) };
    let max_len = tier.pick(25, 40);
    crate::driver::run_cases(&ev, &cfg, || history(max_len), mk, |s, ops: &Vec<Op>| run_history(s, ops), |ops| json!({"ops": ops.iter().map(op2j).collect::<Vec<_>>()}));
    {
        let mut e = ev.lock().unwrap();
        for b in 0..tier.pick(6u64, 60u64) {
            match burst(seed, b) {
                Ok((pushed, delivered, dis, problems)) => {
                    e.evaluations += 1;
                    e.count_label("burst", 1);
                    e.count_label("burst-elements-pushed", pushed);
                    e.count_label("burst-elements-delivered-to-blocking-pops", delivered);
                    e.count_label("burst-disconnects-while-blocked", dis);
                    e.nontrivial.insert(0xC13B_0000_0000_0000 ^ b);
                    if b == 0 {
                        e.add_sample(json!({"kind": "burst", "pushed": pushed, "delivered": delivered, "disconnects": dis}));
                    }
                    for p in problems.iter().take(3) {
                        if p.starts_with("infra") {
                            e.infra.push(p.clone());
                        } else {
                            e.violation(p, "burst-conservation", json!({"kind": "burst", "seed": seed, "burst": b, "note": "schedule-dependent: the replay re-runs the burst five times"}));
                        }
                    }
                }
                Err(x) => e.infra.push(x),
            }
        }
    }
    let e = ev.lock().unwrap();
    let _ = e.write();
    e.exit_code()
}
