//! C14 — Pub/Sub delivers each message exactly once per matching subscription.
//!
//! Generated histories of four subscriber connections and two publisher connections over an
//! overlapping pool of channels and glob patterns; a model of the subscription sets decides
//! every acknowledgement, every PUBLISH count and every frame each subscriber receives.

use crate::client::{Client, Reply};
use crate::driver::{CaseResult, Evidence, LoopCfg, Tier, Verdict};
use crate::model::glob::glob_match;
use crate::model::Bytes;
use crate::resp::{show_bytes, Frame};
use crate::sut::{Server, ServerOpts};
use proptest::prelude::*;
use proptest::sample::select;
use serde_json::{json, Value};
use std::collections::BTreeSet;
use std::sync::Mutex;
use std::time::Duration;

const NSUBS: usize = 4;
const DUE: Duration = Duration::from_secs(8);

#[derive(Clone, Debug)]
pub enum Op {
    Sub { c: usize, names: Vec<Bytes> },
    PSub { c: usize, names: Vec<Bytes> },
    /// empty names = all
    Unsub { c: usize, names: Vec<Bytes> },
    PUnsub { c: usize, names: Vec<Bytes> },
    Publish { p: usize, channel: Bytes, payload: Bytes },
    /// several publishes in one write by one publisher (order must be kept)
    PublishBurst { p: usize, channel: Bytes, n: usize },
    Disconnect { c: usize },
}

fn channels() -> Vec<Bytes> {
    vec![b"a".to_vec(), b"ab".to_vec(), b"a.b".to_vec(), b"b".to_vec(), b"news".to_vec(), b"a*".to_vec(), b"\xff\x00ch".to_vec(), b"a b".to_vec(), b"a\r\nb".to_vec()]
}

fn patterns() -> Vec<Bytes> {
    vec![b"a*".to_vec(), b"*".to_vec(), b"a?".to_vec(), b"*b".to_vec(), b"a\\*".to_vec(), b"[ab]".to_vec(), b"a.b".to_vec(), b"n?ws".to_vec(), b"\xff*".to_vec(), b"a[^x]b".to_vec(), b"*\n*".to_vec()]
}

fn payload() -> BoxedStrategy<Bytes> {
    prop_oneof![
        4 => select(vec![b"hello".to_vec(), b"".to_vec(), b"a\r\nb".to_vec(), b"\x00\xff".to_vec(), b"message".to_vec(), b"*3\r\n$7\r\nmessage\r\n".to_vec()]),
        3 => proptest::collection::vec(any::<u8>(), 0..40),
        1 => (1usize..70_000).prop_map(|n| (0..n).map(|i| (i % 251) as u8).collect()),
    ]
    .boxed()
}

fn op() -> BoxedStrategy<Op> {
    let chs = || proptest::collection::vec(select(channels()), 1..4);
    let pats = || proptest::collection::vec(select(patterns()), 1..4);
    prop_oneof![
        4 => (0..NSUBS, chs()).prop_map(|(c, names)| Op::Sub { c, names }),
        4 => (0..NSUBS, pats()).prop_map(|(c, names)| Op::PSub { c, names }),
        2 => (0..NSUBS, prop_oneof![2 => chs(), 1 => Just(vec![])]).prop_map(|(c, names)| Op::Unsub { c, names }),
        2 => (0..NSUBS, prop_oneof![2 => pats(), 1 => Just(vec![])]).prop_map(|(c, names)| Op::PUnsub { c, names }),
        8 => (0..2usize, select(channels()), payload()).prop_map(|(p, channel, payload)| Op::Publish { p, channel, payload }),
        1 => (0..2usize, select(channels()), 2..6usize).prop_map(|(p, channel, n)| Op::PublishBurst { p, channel, n }),
        1 => (0..NSUBS).prop_map(|c| Op::Disconnect { c }),
    ]
    .boxed()
}

#[derive(Default, Clone)]
struct SubState {
    channels: BTreeSet<Bytes>,
    patterns: BTreeSet<Bytes>,
}

impl SubState {
    fn count(&self) -> i64 {
        (self.channels.len() + self.patterns.len()) as i64
    }
}

type Fail = (String, String);

fn fail<T>(sig: &str, what: String) -> Result<T, Fail> {
    Err((what, sig.to_string()))
}

fn read_due(c: &mut Client, who: &str, why: &str) -> Result<Frame, Fail> {
    match c.read_reply(DUE) {
        Reply::Frame(f) => Ok(f),
        other => fail("missing-frame", format!("{}: {} is due a frame but got {:?} within {:?}", why, who, other, DUE)),
    }
}

fn ack(kind: &str, name: Option<&Bytes>, count: i64) -> Frame {
    Frame::Array(vec![Frame::bulk(kind), name.map_or(Frame::NullBulk, |n| Frame::Bulk(n.clone())), Frame::Int(count)])
}

fn run_history(server: &mut Server, ops: &[Op]) -> CaseResult {
    if !server.alive() {
        match Server::start(ServerOpts::default()) {
            Ok(s) => *server = s,
            Err(e) => return CaseResult::infra(e),
        }
    }
    let mut ctl = match crate::runner::reset_server(server) {
        Ok(c) => c,
        Err(e) => return CaseResult::infra(e),
    };
    let mut subs: Vec<Client> = Vec::new();
    let mut pubs: Vec<Client> = Vec::new();
    for i in 0..NSUBS + 2 {
        match server.client() {
            Ok(c) => {
                if i < NSUBS {
                    subs.push(c)
                } else {
                    pubs.push(c)
                }
            }
            Err(e) => return CaseResult::infra(e.to_string()),
        }
    }
    let mut st: Vec<SubState> = vec![SubState::default(); NSUBS];
    let mut labels: BTreeSet<&'static str> = BTreeSet::new();
    let mut trace: Vec<Value> = Vec::new();
    let mut nontrivial = false;
    // channels on which somebody who matched has since unsubscribed or disconnected
    let mut formerly: BTreeSet<Bytes> = BTreeSet::new();
    let mut serial = 0u64;
    let r = (|| -> Result<(), Fail> {
        for (i, o) in ops.iter().enumerate() {
            let why = format!("step {} {}", i, show_op(o));
            trace.push(json!({"step": i, "op": show_op(o)}));
            match o {
                Op::Sub { c, names } | Op::PSub { c, names } => {
                    let is_p = matches!(o, Op::PSub { .. });
                    let mut cmd: Vec<Bytes> = vec![if is_p { b"PSUBSCRIBE".to_vec() } else { b"SUBSCRIBE".to_vec() }];
                    cmd.extend(names.iter().cloned());
                    let _ = subs[*c].send_cmd(&cmd);
                    for n in names {
                        if is_p {
                            st[*c].patterns.insert(n.clone());
                        } else {
                            st[*c].channels.insert(n.clone());
                        }
                        let want = ack(if is_p { "psubscribe" } else { "subscribe" }, Some(n), st[*c].count());
                        let got = read_due(&mut subs[*c], &format!("subscriber {}", c), &why)?;
                        if got != want {
                            return fail("wrong-acknowledgement", format!("{}: expected {:?}, got {:?}", why, want, got));
                        }
                    }
                    if names.len() > 1 {
                        labels.insert("multi-name-subscribe");
                    }
                }
                Op::Unsub { c, names } | Op::PUnsub { c, names } => {
                    let is_p = matches!(o, Op::PUnsub { .. });
                    let kind = if is_p { "punsubscribe" } else { "unsubscribe" };
                    let mut cmd: Vec<Bytes> = vec![kind.to_ascii_uppercase().into_bytes()];
                    cmd.extend(names.iter().cloned());
                    let _ = subs[*c].send_cmd(&cmd);
                    if names.is_empty() {
                        let current: Vec<Bytes> = if is_p { st[*c].patterns.iter().cloned().collect() } else { st[*c].channels.iter().cloned().collect() };
                        if current.is_empty() {
                            labels.insert("unsubscribe-all-with-nothing-subscribed");
                            let want = ack(kind, None, st[*c].count());
                            let got = read_due(&mut subs[*c], &format!("subscriber {}", c), &why)?;
                            if got != want {
                                return fail("wrong-acknowledgement", format!("{}: expected {:?}, got {:?}", why, want, got));
                            }
                        } else {
                            labels.insert("unsubscribe-all");
                            // one acknowledgement per subscription, in any order, counts going down
                            let mut left: BTreeSet<Bytes> = current.iter().cloned().collect();
                            let mut count = st[*c].count();
                            for _ in 0..current.len() {
                                let got = read_due(&mut subs[*c], &format!("subscriber {}", c), &why)?;
                                count -= 1;
                                let ok = match &got {
                                    Frame::Array(v) if v.len() == 3 => v[0] == Frame::bulk(kind) && matches!(&v[1], Frame::Bulk(n) if left.remove(n)) && v[2] == Frame::Int(count),
                                    _ => false,
                                };
                                if !ok {
                                    return fail("wrong-acknowledgement", format!("{}: expected one [{}, <one of the remaining names>, {}] per subscription, got {:?}", why, kind, count, got));
                                }
                            }
                            for n in &current {
                                formerly.insert(n.clone());
                            }
                            if is_p {
                                st[*c].patterns.clear();
                            } else {
                                st[*c].channels.clear();
                            }
                        }
                    } else {
                        for n in names {
                            let removed = if is_p { st[*c].patterns.remove(n) } else { st[*c].channels.remove(n) };
                            if removed {
                                formerly.insert(n.clone());
                            } else {
                                labels.insert("unsubscribe-not-subscribed");
                            }
                            let want = ack(kind, Some(n), st[*c].count());
                            let got = read_due(&mut subs[*c], &format!("subscriber {}", c), &why)?;
                            if got != want {
                                return fail("wrong-acknowledgement", format!("{}: expected {:?}, got {:?}", why, want, got));
                            }
                        }
                    }
                }
                Op::Publish { .. } | Op::PublishBurst { .. } => {
                    let (p, channel, payloads): (usize, &Bytes, Vec<Bytes>) = match o {
                        Op::Publish { p, channel, payload } => (*p, channel, vec![payload.clone()]),
                        Op::PublishBurst { p, channel, n } => (
                            *p,
                            channel,
                            (0..*n)
                                .map(|_| {
                                    serial += 1;
                                    format!("burst-{}", serial).into_bytes()
                                })
                                .collect(),
                        ),
                        _ => unreachable!(),
                    };
                    // expected deliveries per subscriber
                    let mut per_sub: Vec<Vec<Frame>> = vec![Vec::new(); NSUBS];
                    let mut clients_hit = 0;
                    for c in 0..NSUBS {
                        if st[c].channels.contains(channel) {
                            per_sub[c].push(Frame::Array(vec![Frame::bulk("message"), Frame::Bulk(channel.clone()), Frame::NullBulk]));
                        }
                        for pat in &st[c].patterns {
                            if glob_match(pat, channel) {
                                per_sub[c].push(Frame::Array(vec![Frame::bulk("pmessage"), Frame::Bulk(pat.clone()), Frame::Bulk(channel.clone()), Frame::NullBulk]));
                            }
                        }
                        if !per_sub[c].is_empty() {
                            clients_hit += 1;
                        }
                    }
                    let total: usize = per_sub.iter().map(|v| v.len()).sum();
                    if total >= 2 && clients_hit >= 2 {
                        labels.insert("publish-to-several-subscriptions-on-several-clients");
                        nontrivial = true;
                    }
                    if formerly.contains(channel) || formerly.iter().any(|f| glob_match(f, channel)) {
                        labels.insert("publish-after-unsubscribe-or-disconnect");
                        nontrivial = true;
                    }
                    if total == 0 {
                        labels.insert("publish-to-nobody");
                    }
                    if payloads.iter().any(|p| p.len() > 20_000) {
                        labels.insert("large-payload");
                    }
                    let mut w = Vec::new();
                    for pl in &payloads {
                        w.extend(crate::resp::encode_cmd(&[b"PUBLISH".as_ref(), channel.as_slice(), pl.as_slice()]));
                    }
                    let _ = pubs[p].send_raw(&w);
                    for _ in &payloads {
                        let r = pubs[p].read_reply(DUE);
                        if r != Reply::Frame(Frame::Int(total as i64)) {
                            return fail("publish-count", format!("{}: {} matching subscriptions exist, PUBLISH replied {:?}", why, total, r));
                        }
                    }
                    for c in 0..NSUBS {
                        for pl in &payloads {
                            // within one publish the order of a client's frames is unspecified
                            let mut want: Vec<Frame> = per_sub[c]
                                .iter()
                                .map(|f| {
                                    let Frame::Array(v) = f else { unreachable!() };
                                    let mut v = v.clone();
                                    *v.last_mut().unwrap() = Frame::Bulk(pl.clone());
                                    Frame::Array(v)
                                })
                                .collect();
                            while !want.is_empty() {
                                let got = read_due(&mut subs[c], &format!("subscriber {}", c), &why)?;
                                match want.iter().position(|f| *f == got) {
                                    Some(ix) => {
                                        want.remove(ix);
                                    }
                                    None => {
                                        return fail(
                                            "wrong-delivery",
                                            format!("{}: subscriber {} received {} but is due {}", why, c, short(&got), want.iter().map(short).collect::<Vec<_>>().join(" / ")),
                                        )
                                    }
                                }
                            }
                        }
                    }
                }
                Op::Disconnect { c } => {
                    if st[*c].count() > 0 {
                        labels.insert("disconnect-while-subscribed");
                        for n in st[*c].channels.iter().chain(st[*c].patterns.iter()) {
                            formerly.insert(n.clone());
                        }
                    }
                    subs[*c].close();
                    st[*c] = SubState::default();
                    subs[*c] = server.client().map_err(|e| (e.to_string(), "infra".to_string()))?;
                    // let the server notice
                    std::thread::sleep(Duration::from_millis(5));
                    for _ in 0..2 {
                        let _ = ctl.cmd(&["PING"]);
                    }
                }
            }
            // nobody may have anything more
            for _ in 0..2 {
                let _ = ctl.cmd(&["PING"]);
            }
            for c in 0..NSUBS {
                match subs[c].read_reply(Duration::from_millis(1)) {
                    Reply::Timeout => {}
                    other => return fail("extra-frame", format!("{}: subscriber {} is due nothing more but received {}", why, c, match &other { Reply::Frame(f) => short(f), o => format!("{:?}", o) })),
                }
            }
        }
        // wind-down: a longer look for stragglers, then every subscriber leaves subscribed mode and is usable
        std::thread::sleep(Duration::from_millis(30));
        for c in 0..NSUBS {
            match subs[c].read_reply(Duration::from_millis(1)) {
                Reply::Timeout => {}
                other => return fail("extra-frame", format!("after the history: subscriber {} received {:?}", c, other)),
            }
        }
        Ok(())
    })();
    for c in subs.iter_mut().chain(pubs.iter_mut()) {
        c.close();
    }
    let labels: Vec<String> = labels.iter().map(|s| s.to_string()).collect();
    let trace = Some(Value::Array(trace.into_iter().take(60).collect()));
    match r {
        Ok(()) => CaseResult { verdict: Verdict::Pass, labels, nontrivial, excluded: vec![], trace },
        Err((what, sig)) if sig == "infra" => CaseResult { verdict: Verdict::Infra(what), labels, nontrivial, excluded: vec![], trace },
        Err((what, sig)) => {
            server.kill();
            CaseResult { verdict: Verdict::Fail { what, sig }, labels, nontrivial, excluded: vec![], trace }
        }
    }
}

fn short(f: &Frame) -> String {
    let s = format!("{:?}", f);
    if s.len() > 160 {
        format!("{}...({} chars)", &s[..160], s.len())
    } else {
        s
    }
}

fn show_op(o: &Op) -> String {
    let names = |v: &Vec<Bytes>| v.iter().map(|b| format!("\"{}\"", show_bytes(b))).collect::<Vec<_>>().join(" ");
    match o {
        Op::Sub { c, names: n } => format!("subscriber {}: SUBSCRIBE {}", c, names(n)),
        Op::PSub { c, names: n } => format!("subscriber {}: PSUBSCRIBE {}", c, names(n)),
        Op::Unsub { c, names: n } => format!("subscriber {}: UNSUBSCRIBE {}", c, names(n)),
        Op::PUnsub { c, names: n } => format!("subscriber {}: PUNSUBSCRIBE {}", c, names(n)),
        Op::Publish { p, channel, payload } => format!("publisher {}: PUBLISH \"{}\" <{} bytes: {}>", p, show_bytes(channel), payload.len(), show_bytes(&payload[..payload.len().min(24)])),
        Op::PublishBurst { p, channel, n } => format!("publisher {}: {} x PUBLISH \"{}\" in one write", p, n, show_bytes(channel)),
        Op::Disconnect { c } => format!("subscriber {} disconnects and reconnects", c),
    }
}

fn op2j(o: &Op) -> Value {
    let names = |v: &Vec<Bytes>| Value::Array(v.iter().map(|b| crate::driver::b2j(b)).collect());
    match o {
        Op::Sub { c, names: n } => json!({"op": "sub", "c": c, "names": names(n)}),
        Op::PSub { c, names: n } => json!({"op": "psub", "c": c, "names": names(n)}),
        Op::Unsub { c, names: n } => json!({"op": "unsub", "c": c, "names": names(n)}),
        Op::PUnsub { c, names: n } => json!({"op": "punsub", "c": c, "names": names(n)}),
        Op::Publish { p, channel, payload } => json!({"op": "publish", "p": p, "channel": crate::driver::b2j(channel), "payload": crate::driver::b2j(payload)}),
        Op::PublishBurst { p, channel, n } => json!({"op": "burst", "p": p, "channel": crate::driver::b2j(channel), "n": n}),
        Op::Disconnect { c } => json!({"op": "disconnect", "c": c}),
    }
}

fn j2op(v: &Value) -> Option<Op> {
    let u = |k: &str| v.get(k).and_then(|x| x.as_u64()).unwrap_or(0) as usize;
    let names = || v.get("names").and_then(|n| n.as_array()).map(|a| a.iter().map(crate::driver::j2b).collect::<Vec<_>>()).unwrap_or_default();
    Some(match v.get("op")?.as_str()? {
        "sub" => Op::Sub { c: u("c") % NSUBS, names: names() },
        "psub" => Op::PSub { c: u("c") % NSUBS, names: names() },
        "unsub" => Op::Unsub { c: u("c") % NSUBS, names: names() },
        "punsub" => Op::PUnsub { c: u("c") % NSUBS, names: names() },
        "publish" => Op::Publish { p: u("p") % 2, channel: crate::driver::j2b(v.get("channel")?), payload: crate::driver::j2b(v.get("payload")?) },
        "burst" => Op::PublishBurst { p: u("p") % 2, channel: crate::driver::j2b(v.get("channel")?), n: u("n").max(1) },
        "disconnect" => Op::Disconnect { c: u("c") % NSUBS },
        _ => return None,
    })
}

pub fn run(tier: Tier, seed: u64, replay: Option<Value>) -> i32 {
    let ev = Mutex::new(Evidence::new(
        "C14",
        tier,
        seed,
        "exploration",
        "generated histories (3..30 operations) of four subscriber connections and two publisher connections: SUBSCRIBE / PSUBSCRIBE of 1-3 names (repeats, already subscribed), UNSUBSCRIBE / PUNSUBSCRIBE named or all (also with nothing subscribed, also names not subscribed), PUBLISH with binary, empty, CRLF-bearing, RESP-looking and up to 70 KB payloads, 2-5 publishes pipelined in one write, disconnect+reconnect; channels from an overlapping pool of 9 (incl. binary, with space, with CRLF, one that looks like a pattern), patterns from 11 globs built to overlap (*, ?, classes, negated class, escape, binary). A model of the subscription sets decides: every acknowledgement (kind, name, remaining count = channels + patterns), the PUBLISH integer (= matching subscriptions), and for every subscriber exactly the due message/pmessage frames with pattern, channel and payload bytes intact, publish order kept across publishes; after every step nobody has an extra frame (two PING round trips on a control connection, then a poll; 30 ms at the end). Non-trivial = a publish matching >= 2 subscriptions on >= 2 clients, or on a channel/pattern that a client has unsubscribed from or disconnected with; distinct by hash of the history",
    ));
    let mk = |_: usize| Server::start(ServerOpts::default());
    if let Some(r) = replay {
        let c = r.get("case").unwrap_or(&r);
        let ops: Vec<Op> = c.get("ops").and_then(|o| o.as_array()).map(|a| a.iter().filter_map(j2op).collect()).unwrap_or_default();
        let mut server = match mk(0) {
            Ok(s) => s,
            Err(e) => {
                eprintln!("infrastructure: {}", e);
                return 2;
            }
        };
        let res = run_history(&mut server, &ops);
        crate::outln!("{}", serde_json::to_string_pretty(res.trace.as_ref().unwrap_or(&Value::Null)).unwrap());
        return match res.verdict {
            Verdict::Pass => {
                crate::outln!("replay: PASS");
                0
            }
            Verdict::Fail { what, sig } => {
                crate::outln!("replay: FAIL [{}] {}", sig, what);
                1
            }
            Verdict::Infra(m) => {
                crate::outln!("replay: inconclusive {}", m);
                2
            }
        };
    }
    let cfg = LoopCfg { cases: tier.pick(1000, 12000), workers: 12, max_shrink_execs: 150, max_violations: std::env::var("FVH_MAX_VIOL").ok().and_then(|s| s.parse().ok()).unwrap_or(8) };
    let max_len = tier.pick(30, 60);
    crate::driver::run_cases(&ev, &cfg, || proptest::collection::vec(op(), 3..=max_len), mk, |s, ops: &Vec<Op>| run_history(s, ops), |ops| json!({"ops": ops.iter().map(op2j).collect::<Vec<_>>()}));
    let e = ev.lock().unwrap();
    let _ = e.write();
    e.exit_code()
}
