//! C15 — streams are append-only logs with strictly increasing IDs and exact ranges.

use super::hist::HistSpec;
use crate::findings::Active;
use crate::model::{Cmd, World};
use crate::runner::Step;

fn nontrivial(w: &World) -> bool {
    let l = &w.labels;
    w.mutations >= 1 && (l.contains("range-bound-outside-or-between") || l.contains("xadd-auto-after-emptied") || l.contains("xdel-tail") || l.contains("xtrim-evicted") || l.contains("xadd-id-refused"))
}

fn excluder(a: &Active, w: &mut World, conn: usize, c: &Cmd) -> Option<&'static str> {
    super::kf::common_excluder(a, w, conn, c)
}

fn fixed_cases() -> Vec<Vec<Step>> {
    Vec::new()
}

pub fn spec() -> HistSpec {
    HistSpec {
        id: "C15",
        rule: "random histories of 1..40 stream commands (XADD auto and explicit IDs at u64 edges / ahead of the clock / malformed, XDEL, XTRIM MAXLEN, XLEN, XRANGE/XREVRANGE with bounds below/inside/between/above stored IDs with and without COUNT, XREAD), compared step by step with an ordered-map model that also tracks the greatest ID ever added; non-trivial = a mutation and at least one of {range bound outside or between stored IDs, auto ID after emptying, tail deleted, trim evicted, explicit ID refused}; distinct by hash of the command list",
        cmd: || crate::gen::with_arity_noise(crate::gen::c15_cmd()),
        history: None,
        max_len: 40,
        quick_cases: 8000,
        thorough_cases: 150000,
        nontrivial,
        probes: vec![(super::kf::K_LAX_INT, super::kf::probe_lax_int), (super::kf::K_XADD_MAX, super::kf::probe_xadd_max)],
        excluder,
        fixed_cases,
        label_floors: vec![("range-bound-outside-or-between", 200), ("xdel-tail", 50), ("xtrim-evicted", 50), ("xadd-id-refused", 100), ("range-count", 100), ("xread-data", 50)],
        assumptions: vec!["entry fields compare as maps", "XREAD with no data may answer nil or an empty array", "only complete IDs (ms-seq) are generated"],
        ..Default::default()
    }
}
