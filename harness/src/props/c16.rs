//! C16 — consumer groups deliver each entry once and account pending entries exactly.
//!
//! Generated histories over two streams, two groups and four consumers against a model of
//! (group cursor, pending map id -> owner, consumer set). After every step the four
//! observable representations of the pending set (XPENDING summary, XPENDING range, XPENDING
//! range per consumer, XINFO GROUPS / XINFO CONSUMERS counters) are compared with the model.

use crate::client::{Client, Reply};
use crate::driver::{CaseResult, Evidence, LoopCfg, Tier, Verdict};
use crate::model::{show_cmd, Bytes, Cmd};
use crate::resp::Frame;
use crate::sut::{Server, ServerOpts};
use proptest::prelude::*;
use proptest::sample::select;
use serde_json::{json, Value};
use std::collections::{BTreeMap, BTreeSet};
use std::sync::Mutex;

type Id = (u64, u64);

const KEYS: [&str; 2] = ["st:1", "st:2"];
const GROUPS: [&str; 2] = ["g1", "g2"];
const CONSUMERS: [&str; 4] = ["alice", "bob", "carol", "dave"];

#[derive(Clone, Debug)]
pub enum Op {
    /// n entries with fresh increasing IDs
    Add { k: usize, n: usize },
    /// start: 0 = "0", 1 = "$", 2 = an existing ID picked by index
    Create { k: usize, g: usize, start: u8, pick: usize, mkstream: bool },
    Destroy { k: usize, g: usize },
    SetId { k: usize, g: usize, start: u8, pick: usize },
    CreateConsumer { k: usize, g: usize, c: usize },
    DelConsumer { k: usize, g: usize, c: usize },
    Read { k: usize, g: usize, c: usize, count: Option<usize>, noack: bool },
    /// history re-read of the consumer's own pending entries (explicit ID 0)
    ReadHistory { k: usize, g: usize, c: usize, count: Option<usize> },
    /// picks: indexes into the delivered-ever list; unknown: also name IDs never added; twice: repeat one ID
    Ack { k: usize, g: usize, picks: Vec<usize>, unknown: bool, twice: bool },
    /// never: min-idle one hour; idle150: min-idle 150 ms, decided by the harness clock
    Claim { k: usize, g: usize, c: usize, picks: Vec<usize>, never: bool, justid: bool, unknown: bool, idle150: bool },
    Sleep { ms: u32 },
    /// delete entries that are not pending anywhere
    Del { k: usize, pick: usize },
}

fn op() -> BoxedStrategy<Op> {
    let k = || prop_oneof![4 => Just(0usize), 1 => Just(1usize)];
    let g = || prop_oneof![3 => Just(0usize), 1 => Just(1usize)];
    let c = || 0..4usize;
    let count = || proptest::option::weighted(0.6, select(vec![1usize, 2, 3, 10]));
    let picks = || proptest::collection::vec(0..64usize, 1..5);
    prop_oneof![
        6 => (k(), 1..5usize).prop_map(|(k, n)| Op::Add { k, n }),
        3 => (k(), g(), 0..3u8, 0..64usize, any::<bool>()).prop_map(|(k, g, start, pick, mkstream)| Op::Create { k, g, start, pick, mkstream }),
        1 => (k(), g()).prop_map(|(k, g)| Op::Destroy { k, g }),
        1 => (k(), g(), 0..3u8, 0..64usize).prop_map(|(k, g, start, pick)| Op::SetId { k, g, start, pick }),
        1 => (k(), g(), c()).prop_map(|(k, g, c)| Op::CreateConsumer { k, g, c }),
        1 => (k(), g(), c()).prop_map(|(k, g, c)| Op::DelConsumer { k, g, c }),
        9 => (k(), g(), c(), count(), prop::bool::weighted(0.15)).prop_map(|(k, g, c, count, noack)| Op::Read { k, g, c, count, noack }),
        2 => (k(), g(), c(), count()).prop_map(|(k, g, c, count)| Op::ReadHistory { k, g, c, count }),
        5 => (k(), g(), picks(), prop::bool::weighted(0.2), prop::bool::weighted(0.2)).prop_map(|(k, g, picks, unknown, twice)| Op::Ack { k, g, picks, unknown, twice }),
        5 => (k(), g(), c(), picks(), prop::bool::weighted(0.2), any::<bool>(), prop::bool::weighted(0.2), prop::bool::weighted(0.4)).prop_map(|(k, g, c, picks, never, justid, unknown, idle150)| Op::Claim { k, g, c, picks, never, justid, unknown, idle150: idle150 && !never }),
        1 => Just(Op::Sleep { ms: 260 }),
        1 => (k(), 0..64usize).prop_map(|(k, pick)| Op::Del { k, pick }),
    ]
    .boxed()
}

#[derive(Default, Clone)]
struct GroupM {
    cursor: Id,
    pel: BTreeMap<Id, String>,
    /// when each pending entry was last delivered or claimed: the server stamped it somewhere
    /// between the moment the harness started sending that command and the moment it had the reply
    pel_time: BTreeMap<Id, (std::time::Instant, std::time::Instant)>,
    consumers: BTreeSet<String>,
    /// consumers named by a read or claim that delivered nothing: whether that creates them is
    /// not stated by the property; the first observation decides
    maybe: BTreeSet<String>,
    delivered_ever: Vec<Id>,
}

#[derive(Default, Clone)]
struct StreamM {
    exists: bool,
    entries: BTreeMap<Id, Bytes>,
    last: Id,
    groups: BTreeMap<String, GroupM>,
}

fn ids(i: Id) -> String {
    format!("{}-{}", i.0, i.1)
}

fn parse_id(b: &[u8]) -> Option<Id> {
    let s = std::str::from_utf8(b).ok()?;
    let (a, b) = s.split_once('-')?;
    Some((a.parse().ok()?, b.parse().ok()?))
}

fn bs(s: &str) -> Bytes {
    s.as_bytes().to_vec()
}

type Fail = (String, String);

fn fail<T>(sig: &str, what: String) -> Result<T, Fail> {
    Err((what, sig.to_string()))
}

/// [[id, [f, v]], ...] -> ids (checking that each carries its own payload)
fn entry_ids(f: &Frame, st: &StreamM, ctx: &str) -> Result<Vec<Id>, Fail> {
    let Frame::Array(v) = f else { return fail("reply-shape", format!("{}: expected a list of entries, got {:?}", ctx, f)) };
    let mut out = Vec::new();
    for e in v {
        let ok = match e {
            Frame::Array(p) if p.len() == 2 => match (&p[0], &p[1]) {
                (Frame::Bulk(id), Frame::Array(fv)) => parse_id(id).map(|i| (i, fv.clone())),
                _ => None,
            },
            _ => None,
        };
        let Some((id, fv)) = ok else { return fail("reply-shape", format!("{}: entry {:?} is not [id, [field, value]]", ctx, e)) };
        let want = st.entries.get(&id);
        if want.map(|p| vec![Frame::bulk("n"), Frame::Bulk(p.clone())]) != Some(fv.clone()) {
            return fail("wrong-entry", format!("{}: entry {} came with fields {:?} but the stream holds {:?}", ctx, ids(id), fv, want.map(|p| crate::resp::show_bytes(p))));
        }
        out.push(id);
    }
    Ok(out)
}

/// XREADGROUP reply -> ids for the one stream asked for (nil / empty forms -> none)
fn read_reply_ids(r: &Reply, key: &str, st: &StreamM, ctx: &str) -> Result<Vec<Id>, Fail> {
    match r {
        Reply::Frame(f) if f.is_nil() => Ok(vec![]),
        Reply::Frame(Frame::Array(v)) if v.is_empty() => Ok(vec![]),
        Reply::Frame(Frame::Array(v)) if v.len() == 1 => match &v[0] {
            Frame::Array(kv) if kv.len() == 2 && kv[0] == Frame::bulk(key) => entry_ids(&kv[1], st, ctx),
            other => fail("reply-shape", format!("{}: expected [[key, entries]], got {:?}", ctx, other)),
        },
        other => fail("reply-shape", format!("{}: expected [[key, entries]] or nil, got {:?}", ctx, other)),
    }
}

fn as_count(f: &Frame) -> Option<i64> {
    match f {
        Frame::Int(i) => Some(*i),
        Frame::Bulk(b) => std::str::from_utf8(b).ok()?.parse().ok(),
        _ => None,
    }
}

/// Compare everything observable about one group with the model.
fn observe(c: &mut Client, key: &str, gname: &str, g: &mut GroupM, after: &str) -> Result<(), Fail> {
    if !g.maybe.is_empty() {
        if let Reply::Frame(Frame::Array(cs)) = c.cmd(&["XINFO", "CONSUMERS", key, gname]) {
            for cinfo in &cs {
                let Frame::Array(kv) = cinfo else { continue };
                if let Some(Frame::Bulk(n)) = kv.chunks(2).find(|p| p[0] == Frame::bulk("name")).map(|p| p[1].clone()) {
                    let n = String::from_utf8_lossy(&n).to_string();
                    if g.maybe.contains(&n) {
                        g.consumers.insert(n);
                    }
                }
            }
        }
        g.maybe.clear();
    }
    let want_total = g.pel.len() as i64;
    let want_min = g.pel.keys().next().copied();
    let want_max = g.pel.keys().next_back().copied();
    let mut per: BTreeMap<String, i64> = BTreeMap::new();
    for o in g.pel.values() {
        *per.entry(o.clone()).or_insert(0) += 1;
    }
    // 1. XPENDING summary
    let r = c.cmd(&["XPENDING", key, gname]);
    let ctx = format!("after {}: XPENDING {} {}", after, key, gname);
    match &r {
        Reply::Frame(Frame::Array(v)) if v.len() == 4 => {
            let total = as_count(&v[0]);
            let min = match &v[1] {
                Frame::Bulk(b) => parse_id(b),
                _ => None,
            };
            let max = match &v[2] {
                Frame::Bulk(b) => parse_id(b),
                _ => None,
            };
            let mut got_per: BTreeMap<String, i64> = BTreeMap::new();
            if let Frame::Array(cs) = &v[3] {
                for e in cs {
                    if let Frame::Array(p) = e {
                        if let (Some(Frame::Bulk(n)), Some(cnt)) = (p.first(), p.get(1).and_then(as_count)) {
                            got_per.insert(String::from_utf8_lossy(n).to_string(), cnt);
                        }
                    }
                }
            }
            if total != Some(want_total) || min != want_min || max != want_max || got_per != per {
                return fail(
                    "pending-summary",
                    format!("{} -> {:?}, but the pending set is {} entries, bounds {:?}..{:?}, per consumer {:?}", ctx, r, want_total, want_min.map(ids), want_max.map(ids), per),
                );
            }
        }
        other => return fail("reply-shape", format!("{} -> {:?} (expected [count, min, max, consumers])", ctx, other)),
    }
    // 2. XPENDING range, all and per consumer
    let mut filters: Vec<Option<&str>> = vec![None];
    filters.extend(CONSUMERS.iter().map(|c| Some(*c)));
    for f in filters {
        let mut cmd = vec!["XPENDING", key, gname, "-", "+", "10000"];
        if let Some(c) = f {
            cmd.push(c);
        }
        let r = c.cmd(&cmd);
        let want: Vec<(Id, String)> = g.pel.iter().filter(|(_, o)| f.map_or(true, |c| o.as_str() == c)).map(|(i, o)| (*i, o.clone())).collect();
        let got: Option<Vec<(Id, String)>> = match &r {
            Reply::Frame(Frame::Array(v)) => v
                .iter()
                .map(|e| match e {
                    Frame::Array(p) if p.len() == 4 => match (&p[0], &p[1], as_count(&p[3])) {
                        (Frame::Bulk(i), Frame::Bulk(o), Some(dc)) if dc >= 1 => parse_id(i).map(|i| (i, String::from_utf8_lossy(o).to_string())),
                        _ => None,
                    },
                    _ => None,
                })
                .collect(),
            Reply::Frame(f) if f.is_nil() => Some(vec![]),
            _ => None,
        };
        if got.as_ref() != Some(&want) {
            return fail(
                "pending-range",
                format!("after {}: {} -> {:?}, but the pending entries{} are {:?}", after, cmd.join(" "), r, f.map_or(String::new(), |c| format!(" of {}", c)), want.iter().map(|(i, o)| format!("{}:{}", ids(*i), o)).collect::<Vec<_>>()),
            );
        }
    }
    // 2b. a proper sub-range with a count, with and without a consumer filter
    if g.pel.len() >= 3 {
        let keys: Vec<Id> = g.pel.keys().copied().collect();
        let (lo, hi) = (keys[1], keys[keys.len() - 1]);
        let owner = g.pel[&keys[1]].clone();
        for f in [None, Some(owner.as_str())] {
            let (los, his) = (ids(lo), ids((hi.0, hi.1.saturating_sub(1))));
            let mut cmd = vec!["XPENDING", key, gname, los.as_str(), his.as_str(), "2"];
            if let Some(c) = f {
                cmd.push(c);
            }
            let r = c.cmd(&cmd);
            let hi_excl = (hi.0, hi.1.saturating_sub(1));
            let want: Vec<Id> = g.pel.iter().filter(|(i, o)| **i >= lo && **i <= hi_excl && f.map_or(true, |c| o.as_str() == c)).map(|(i, _)| *i).take(2).collect();
            let got: Option<Vec<Id>> = match &r {
                Reply::Frame(Frame::Array(v)) => v.iter().map(|e| if let Frame::Array(p) = e { p.first().and_then(|x| if let Frame::Bulk(b) = x { parse_id(b) } else { None }) } else { None }).collect(),
                Reply::Frame(f) if f.is_nil() => Some(vec![]),
                _ => None,
            };
            if got.as_ref() != Some(&want) {
                return fail("pending-range", format!("after {}: {} -> {:?}, expected the IDs {:?}", after, cmd.join(" "), r, want.iter().map(|i| ids(*i)).collect::<Vec<_>>()));
            }
        }
        // a reversed range is empty
        let r = c.cmd(&["XPENDING", key, gname, ids(hi).as_str(), ids(lo).as_str(), "10"]);
        if !matches!(&r, Reply::Frame(Frame::Array(v)) if v.is_empty()) && !matches!(&r, Reply::Frame(f) if f.is_nil()) {
            return fail("pending-range", format!("after {}: XPENDING with start {} after end {} -> {:?}, expected nothing", after, ids(hi), ids(lo), r));
        }
    }
    // 3. XINFO GROUPS / CONSUMERS
    let r = c.cmd(&["XINFO", "GROUPS", key]);
    let mut found = false;
    if let Reply::Frame(Frame::Array(gs)) = &r {
        for ginfo in gs {
            let Frame::Array(kv) = ginfo else { continue };
            let get = |name: &str| kv.chunks(2).find(|p| p[0] == Frame::bulk(name)).map(|p| p[1].clone());
            if get("name") != Some(Frame::bulk(gname)) {
                continue;
            }
            found = true;
            let consumers = get("consumers").as_ref().and_then(as_count);
            let pending = get("pending").as_ref().and_then(as_count);
            let last = match get("last-delivered-id") {
                Some(Frame::Bulk(b)) => parse_id(&b),
                _ => None,
            };
            if consumers != Some(g.consumers.len() as i64) || pending != Some(want_total) || last != Some(g.cursor) {
                return fail(
                    "xinfo-groups",
                    format!("after {}: XINFO GROUPS {} says consumers={:?} pending={:?} last-delivered-id={:?} for {}, expected consumers={} pending={} last-delivered-id={}", after, key, consumers, pending, last.map(ids), gname, g.consumers.len(), want_total, ids(g.cursor)),
                );
            }
        }
    }
    if !found {
        return fail("xinfo-groups", format!("after {}: XINFO GROUPS {} -> {:?} does not list group {}", after, key, r, gname));
    }
    let r = c.cmd(&["XINFO", "CONSUMERS", key, gname]);
    let mut got: BTreeMap<String, i64> = BTreeMap::new();
    if let Reply::Frame(Frame::Array(cs)) = &r {
        for cinfo in cs {
            let Frame::Array(kv) = cinfo else { continue };
            let get = |name: &str| kv.chunks(2).find(|p| p[0] == Frame::bulk(name)).map(|p| p[1].clone());
            if let (Some(Frame::Bulk(n)), Some(p)) = (get("name"), get("pending").as_ref().and_then(as_count)) {
                got.insert(String::from_utf8_lossy(&n).to_string(), p);
            }
        }
    } else {
        return fail("reply-shape", format!("after {}: XINFO CONSUMERS {} {} -> {:?}", after, key, gname, r));
    }
    let want: BTreeMap<String, i64> = g.consumers.iter().map(|c| (c.clone(), *per.get(c).unwrap_or(&0))).collect();
    if got != want {
        return fail("xinfo-consumers", format!("after {}: XINFO CONSUMERS {} {} lists {:?}, expected {:?}", after, key, gname, got, want));
    }
    Ok(())
}

fn run_history(server: &mut Server, ops: &[Op]) -> CaseResult {
    if !server.alive() {
        match Server::start(ServerOpts::default()) {
            Ok(s) => *server = s,
            Err(e) => return CaseResult::infra(e),
        }
    }
    let mut c = match crate::runner::reset_server(server) {
        Ok(c) => c,
        Err(e) => return CaseResult::infra(e),
    };
    let mut m: Vec<StreamM> = vec![StreamM::default(), StreamM::default()];
    let mut labels: BTreeSet<&'static str> = BTreeSet::new();
    let mut trace: Vec<Value> = Vec::new();
    let mut next_ms = 1000u64;
    let mut payload_n = 0u64;
    let mut receivers: BTreeSet<String> = BTreeSet::new();
    let r = (|| -> Result<(), Fail> {
        for (i, o) in ops.iter().enumerate() {
            let after = format!("step {} {:?}", i, o);
            let mut sent: Vec<Cmd> = Vec::new();
            match o {
                Op::Add { k, n } => {
                    for _ in 0..*n {
                        // same millisecond with increasing sequence, or a later millisecond
                        let id = if payload_n % 3 == 0 { (m[*k].last.0.max(next_ms), m[*k].last.1 + 1) } else { (m[*k].last.0.max(next_ms) + 1 + payload_n % 5, 0) };
                        payload_n += 1;
                        next_ms = next_ms.max(id.0);
                        let payload = format!("p{}", payload_n).into_bytes();
                        let cmd: Cmd = vec![bs("XADD"), bs(KEYS[*k]), ids(id).into_bytes(), bs("n"), payload.clone()];
                        let r = c.cmd(&cmd);
                        sent.push(cmd);
                        if r != Reply::Frame(Frame::Bulk(ids(id).into_bytes())) {
                            return fail("xadd", format!("{}: XADD with ID {} -> {:?}", after, ids(id), r));
                        }
                        m[*k].exists = true;
                        m[*k].entries.insert(id, payload);
                        m[*k].last = id;
                    }
                }
                Op::Create { k, g, start, pick, .. } | Op::SetId { k, g, start, pick } => {
                    let is_create = matches!(o, Op::Create { .. });
                    let mk = if let Op::Create { mkstream, .. } = o { *mkstream } else { false };
                    let st = &m[*k];
                    let (arg, cursor) = match start {
                        0 => ("0".to_string(), (0, 0)),
                        1 => ("$".to_string(), st.last),
                        _ => match st.entries.keys().nth(pick % st.entries.len().max(1)) {
                            Some(id) => (ids(*id), *id),
                            None => ("0".to_string(), (0, 0)),
                        },
                    };
                    let mut cmd: Cmd = vec![bs("XGROUP"), bs(if is_create { "CREATE" } else { "SETID" }), bs(KEYS[*k]), bs(GROUPS[*g]), arg.clone().into_bytes()];
                    if is_create && mk {
                        cmd.push(bs("MKSTREAM"));
                    }
                    let r = c.cmd(&cmd);
                    sent.push(cmd);
                    let gname = GROUPS[*g].to_string();
                    if is_create {
                        if !m[*k].exists && !mk {
                            if !r.is_error() {
                                return fail("xgroup-create", format!("{}: the stream does not exist and MKSTREAM was not given, expected an error, got {:?}", after, r));
                            }
                        } else if m[*k].groups.contains_key(&gname) {
                            if !matches!(&r, Reply::Frame(Frame::Error(e)) if e.starts_with(b"BUSYGROUP")) {
                                return fail("xgroup-create", format!("{}: the group exists, expected BUSYGROUP, got {:?}", after, r));
                            }
                        } else {
                            if r != Reply::Frame(Frame::ok()) {
                                return fail("xgroup-create", format!("{}: expected OK, got {:?}", after, r));
                            }
                            m[*k].exists = true;
                            m[*k].groups.insert(gname, GroupM { cursor, ..Default::default() });
                            if *start == 1 && !m[*k].entries.is_empty() {
                                labels.insert("group-created-at-$-on-a-non-empty-stream");
                            }
                        }
                    } else {
                        match m[*k].groups.get_mut(&gname) {
                            Some(gm) => {
                                if r != Reply::Frame(Frame::ok()) {
                                    return fail("xgroup-setid", format!("{}: expected OK, got {:?}", after, r));
                                }
                                gm.cursor = cursor;
                                labels.insert("setid");
                            }
                            None => {
                                if !r.is_error() {
                                    return fail("xgroup-setid", format!("{}: no such group, expected an error, got {:?}", after, r));
                                }
                            }
                        }
                    }
                }
                Op::Destroy { k, g } => {
                    let cmd: Cmd = vec![bs("XGROUP"), bs("DESTROY"), bs(KEYS[*k]), bs(GROUPS[*g])];
                    let r = c.cmd(&cmd);
                    sent.push(cmd);
                    let had = m[*k].groups.remove(GROUPS[*g]).is_some();
                    let ok = if had { r == Reply::Frame(Frame::Int(1)) } else { r == Reply::Frame(Frame::Int(0)) || r.is_error() };
                    if !ok {
                        return fail("xgroup-destroy", format!("{}: group existed = {}, got {:?}", after, had, r));
                    }
                    if had {
                        labels.insert("destroy");
                    }
                }
                Op::CreateConsumer { k, g, c: ci } => {
                    let cmd: Cmd = vec![bs("XGROUP"), bs("CREATECONSUMER"), bs(KEYS[*k]), bs(GROUPS[*g]), bs(CONSUMERS[*ci])];
                    let r = c.cmd(&cmd);
                    sent.push(cmd);
                    match m[*k].groups.get_mut(GROUPS[*g]) {
                        Some(gm) => {
                            let new = gm.consumers.insert(CONSUMERS[*ci].to_string());
                            if r != Reply::Frame(Frame::Int(new as i64)) {
                                return fail("createconsumer", format!("{}: expected {}, got {:?}", after, new as i64, r));
                            }
                        }
                        None => {
                            if !r.is_error() {
                                return fail("createconsumer", format!("{}: no such group, expected an error, got {:?}", after, r));
                            }
                        }
                    }
                }
                Op::DelConsumer { k, g, c: ci } => {
                    let cmd: Cmd = vec![bs("XGROUP"), bs("DELCONSUMER"), bs(KEYS[*k]), bs(GROUPS[*g]), bs(CONSUMERS[*ci])];
                    let r = c.cmd(&cmd);
                    sent.push(cmd);
                    match m[*k].groups.get_mut(GROUPS[*g]) {
                        Some(gm) => {
                            let name = CONSUMERS[*ci];
                            let n = gm.pel.values().filter(|o| o.as_str() == name).count();
                            gm.pel.retain(|_, o| o.as_str() != name);
                            gm.consumers.remove(name);
                            if r != Reply::Frame(Frame::Int(n as i64)) {
                                return fail("delconsumer", format!("{}: the consumer had {} pending entries, got {:?}", after, n, r));
                            }
                            if n > 0 {
                                labels.insert("delconsumer-with-pending");
                            }
                        }
                        None => {
                            if !r.is_error() && r != Reply::Frame(Frame::Int(0)) {
                                return fail("delconsumer", format!("{}: no such group, expected an error, got {:?}", after, r));
                            }
                        }
                    }
                }
                Op::Read { k, g, c: ci, count, noack } => {
                    let mut cmd: Cmd = vec![bs("XREADGROUP"), bs("GROUP"), bs(GROUPS[*g]), bs(CONSUMERS[*ci])];
                    if let Some(n) = count {
                        cmd.push(bs("COUNT"));
                        cmd.push(n.to_string().into_bytes());
                    }
                    if *noack {
                        cmd.push(bs("NOACK"));
                    }
                    cmd.extend([bs("STREAMS"), bs(KEYS[*k]), bs(">")]);
                    let t_read_before = std::time::Instant::now();
                    let r = c.cmd(&cmd);
                    sent.push(cmd.clone());
                    let st = m[*k].clone();
                    match m[*k].groups.get_mut(GROUPS[*g]) {
                        Some(gm) => {
                            let want: Vec<Id> = st.entries.range((std::ops::Bound::Excluded(gm.cursor), std::ops::Bound::Unbounded)).map(|(i, _)| *i).take(count.unwrap_or(usize::MAX)).collect();
                            let got = read_reply_ids(&r, KEYS[*k], &st, &after)?;
                            if got != want {
                                return fail(
                                    "group-delivery",
                                    format!("{}: the group's last delivered ID is {}, so {} must deliver {:?}, got {:?}", after, ids(gm.cursor), show_cmd(&cmd), want.iter().map(|i| ids(*i)).collect::<Vec<_>>(), got.iter().map(|i| ids(*i)).collect::<Vec<_>>()),
                                );
                            }
                            if let Some(l) = want.last() {
                                gm.cursor = *l;
                                receivers.insert(CONSUMERS[*ci].to_string());
                                gm.consumers.insert(CONSUMERS[*ci].to_string());
                            } else if !gm.consumers.contains(CONSUMERS[*ci]) {
                                gm.maybe.insert(CONSUMERS[*ci].to_string());
                            }
                            for idv in &want {
                                gm.delivered_ever.push(*idv);
                                if !*noack {
                                    gm.pel.insert(*idv, CONSUMERS[*ci].to_string());
                                    gm.pel_time.insert(*idv, (t_read_before, std::time::Instant::now()));
                                }
                            }
                            if *noack && !want.is_empty() {
                                labels.insert("noack-read");
                            }
                        }
                        None => {
                            if !r.is_error() && !read_reply_ids(&r, KEYS[*k], &st, &after)?.is_empty() {
                                return fail("group-delivery", format!("{}: no such group (or key), expected an error or nothing, got {:?}", after, r));
                            }
                        }
                    }
                }
                Op::ReadHistory { k, g, c: ci, count } => {
                    let mut cmd: Cmd = vec![bs("XREADGROUP"), bs("GROUP"), bs(GROUPS[*g]), bs(CONSUMERS[*ci])];
                    if let Some(n) = count {
                        cmd.push(bs("COUNT"));
                        cmd.push(n.to_string().into_bytes());
                    }
                    cmd.extend([bs("STREAMS"), bs(KEYS[*k]), bs("0")]);
                    let r = c.cmd(&cmd);
                    sent.push(cmd.clone());
                    let st = m[*k].clone();
                    match m[*k].groups.get_mut(GROUPS[*g]) {
                        Some(gm) => {
                            let name = CONSUMERS[*ci];
                            let want: Vec<Id> = gm.pel.iter().filter(|(_, o)| o.as_str() == name).map(|(i, _)| *i).take(count.unwrap_or(usize::MAX)).collect();
                            let got = read_reply_ids(&r, KEYS[*k], &st, &after)?;
                            if got != want {
                                return fail(
                                    "history-read",
                                    format!("{}: a read with an explicit ID returns the consumer's own pending entries: {} has {:?}, got {:?}", after, name, want.iter().map(|i| ids(*i)).collect::<Vec<_>>(), got.iter().map(|i| ids(*i)).collect::<Vec<_>>()),
                                );
                            }
                            if !gm.consumers.contains(name) {
                                gm.maybe.insert(name.to_string());
                            }
                            if !want.is_empty() {
                                labels.insert("explicit-id-re-read");
                            }
                            // whether a re-read restarts the idle time is not stated: undecided from here
                            for idv in &want {
                                gm.pel_time.remove(idv);
                            }
                        }
                        None => {
                            if !r.is_error() && !read_reply_ids(&r, KEYS[*k], &st, &after)?.is_empty() {
                                return fail("history-read", format!("{}: no such group (or key), expected an error or nothing, got {:?}", after, r));
                            }
                        }
                    }
                }
                Op::Ack { k, g, picks, unknown, twice } => {
                    let gm0 = m[*k].groups.get(GROUPS[*g]).cloned();
                    let pool: Vec<Id> = gm0.as_ref().map(|g| g.delivered_ever.clone()).unwrap_or_default();
                    let mut idsv: Vec<Id> = picks.iter().filter_map(|p| if pool.is_empty() { None } else { Some(pool[p % pool.len()]) }).collect();
                    if *unknown || idsv.is_empty() {
                        idsv.push((5, 5));
                    }
                    if *twice {
                        idsv.push(idsv[0]);
                    }
                    let mut cmd: Cmd = vec![bs("XACK"), bs(KEYS[*k]), bs(GROUPS[*g])];
                    cmd.extend(idsv.iter().map(|i| ids(*i).into_bytes()));
                    let r = c.cmd(&cmd);
                    sent.push(cmd);
                    match m[*k].groups.get_mut(GROUPS[*g]) {
                        Some(gm) => {
                            let mut n = 0;
                            let mut repeated = false;
                            for idv in &idsv {
                                if gm.pel.remove(idv).is_some() {
                                    n += 1;
                                } else {
                                    repeated = true;
                                }
                            }
                            if r != Reply::Frame(Frame::Int(n)) {
                                return fail("xack-count", format!("{}: {} of the named IDs were pending, got {:?}", after, n, r));
                            }
                            if repeated {
                                labels.insert("repeated-or-unknown-xack");
                            }
                        }
                        None => {
                            if !r.is_error() && r != Reply::Frame(Frame::Int(0)) {
                                return fail("xack-count", format!("{}: no such group, expected 0 or an error, got {:?}", after, r));
                            }
                        }
                    }
                }
                Op::Sleep { ms } => {
                    std::thread::sleep(std::time::Duration::from_millis(*ms as u64));
                    labels.insert("slept");
                }
                Op::Claim { k, g, c: ci, picks, never, justid, unknown, idle150 } => {
                    let gm0 = m[*k].groups.get(GROUPS[*g]).cloned();
                    let pool: Vec<Id> = gm0.as_ref().map(|g| g.delivered_ever.clone()).unwrap_or_default();
                    let mut idsv: Vec<Id> = picks.iter().filter_map(|p| if pool.is_empty() { None } else { Some(pool[p % pool.len()]) }).collect();
                    if *unknown || idsv.is_empty() {
                        idsv.push((5, 5));
                    }
                    idsv.sort();
                    idsv.dedup();
                    let mut cmd: Cmd = vec![bs("XCLAIM"), bs(KEYS[*k]), bs(GROUPS[*g]), bs(CONSUMERS[*ci]), bs(if *never { "3600000" } else if *idle150 { "150" } else { "0" })];
                    cmd.extend(idsv.iter().map(|i| ids(*i).into_bytes()));
                    if *justid {
                        cmd.push(bs("JUSTID"));
                    }
                    let t_before = std::time::Instant::now();
                    let r = c.cmd(&cmd);
                    let t_after = std::time::Instant::now();
                    sent.push(cmd.clone());
                    let st = m[*k].clone();
                    match m[*k].groups.get_mut(GROUPS[*g]) {
                        Some(gm) => {
                            let name = CONSUMERS[*ci].to_string();
                            // which of the named pending IDs must / may be claimed
                            let mut must: Vec<Id> = Vec::new();
                            let mut may: Vec<Id> = Vec::new();
                            for idv in idsv.iter().filter(|i| gm.pel.contains_key(i)) {
                                if *never {
                                    continue;
                                }
                                if !*idle150 {
                                    must.push(*idv);
                                    continue;
                                }
                                // sound whatever the scheduling: the server's idle time lies between
                                // (claim sent - stamp at the latest) and (claim answered - stamp at the earliest)
                                let margin = std::time::Duration::from_millis(3);
                                let thr = std::time::Duration::from_millis(150);
                                match gm.pel_time.get(idv) {
                                    Some((stamp_lo, stamp_hi)) => {
                                        let idle_lo = t_before.saturating_duration_since(*stamp_hi);
                                        let idle_hi = t_after.saturating_duration_since(*stamp_lo);
                                        if idle_lo >= thr + margin {
                                            must.push(*idv);
                                        } else if idle_hi + margin > thr {
                                            may.push(*idv);
                                        }
                                    }
                                    None => may.push(*idv),
                                }
                            }
                            let got: Vec<Id> = match &r {
                                Reply::Frame(Frame::Array(v)) if *justid => {
                                    let mut o = Vec::new();
                                    for e in v {
                                        match e {
                                            Frame::Bulk(b) => match parse_id(b) {
                                                Some(i) => o.push(i),
                                                None => return fail("reply-shape", format!("{}: {:?}", after, r)),
                                            },
                                            _ => return fail("reply-shape", format!("{}: JUSTID must return IDs, got {:?}", after, r)),
                                        }
                                    }
                                    o
                                }
                                Reply::Frame(f @ Frame::Array(_)) => entry_ids(f, &st, &after)?,
                                Reply::Frame(f) if f.is_nil() => vec![],
                                other => return fail("reply-shape", format!("{}: {} -> {:?}", after, show_cmd(&cmd), other)),
                            };
                            let ok = must.iter().all(|i| got.contains(i)) && got.iter().all(|i| must.contains(i) || may.contains(i)) && got.windows(2).all(|w| w[0] < w[1]);
                            if !ok {
                                return fail(
                                    "xclaim",
                                    format!(
                                        "{}: named and pending: {:?}; by their idle time (threshold {}) {:?} must and {:?} may be claimed, got {:?}",
                                        after,
                                        idsv.iter().filter(|i| gm.pel.contains_key(i)).map(|i| ids(*i)).collect::<Vec<_>>(),
                                        if *never { "1 h" } else if *idle150 { "150 ms" } else { "0" },
                                        must.iter().map(|i| ids(*i)).collect::<Vec<_>>(),
                                        may.iter().map(|i| ids(*i)).collect::<Vec<_>>(),
                                        got.iter().map(|i| ids(*i)).collect::<Vec<_>>()
                                    ),
                                );
                            }
                            if *idle150 && !must.is_empty() {
                                labels.insert("xclaim-idle-threshold-met");
                            }
                            if *idle150 && idsv.iter().any(|i| gm.pel.contains_key(i) && !must.contains(i) && !may.contains(i)) {
                                labels.insert("xclaim-idle-threshold-not-met");
                            }
                            if !got.is_empty() {
                                gm.consumers.insert(name.clone());
                            } else if !gm.consumers.contains(&name) {
                                gm.maybe.insert(name.clone());
                            }
                            for idv in &got {
                                if gm.pel.get(idv) != Some(&name) {
                                    labels.insert("xclaim-moved-an-entry");
                                }
                                gm.pel.insert(*idv, name.clone());
                                gm.pel_time.insert(*idv, (t_before, t_after));
                            }
                        }
                        None => {
                            if !r.is_error() && !matches!(&r, Reply::Frame(Frame::Array(v)) if v.is_empty()) && !matches!(&r, Reply::Frame(f) if f.is_nil()) {
                                return fail("xclaim", format!("{}: no such group, expected an error or nothing, got {:?}", after, r));
                            }
                        }
                    }
                }
                Op::Del { k, pick } => {
                    let st = &m[*k];
                    let pending_anywhere: BTreeSet<Id> = st.groups.values().flat_map(|g| g.pel.keys().copied()).collect();
                    // not the newest entry either: what $ means afterwards is then a matter of taste
                    let newest = st.entries.keys().next_back().copied();
                    let cands: Vec<Id> = st.entries.keys().filter(|i| !pending_anywhere.contains(i) && Some(**i) != newest).copied().collect();
                    if cands.is_empty() {
                        continue;
                    }
                    let idv = cands[pick % cands.len()];
                    let cmd: Cmd = vec![bs("XDEL"), bs(KEYS[*k]), ids(idv).into_bytes()];
                    let r = c.cmd(&cmd);
                    sent.push(cmd);
                    if r != Reply::Frame(Frame::Int(1)) {
                        return fail("xdel", format!("{}: XDEL {} -> {:?}", after, ids(idv), r));
                    }
                    m[*k].entries.remove(&idv);
                    labels.insert("entry-deleted-in-between");
                }
            }
            if trace.len() < 60 {
                trace.push(json!({"step": i, "sent": sent.iter().map(|c| show_cmd(c)).collect::<Vec<_>>()}));
            }
            for (k, st) in m.iter_mut().enumerate() {
                for (gname, gm) in st.groups.iter_mut() {
                    observe(&mut c, KEYS[k], gname, gm, &after)?;
                }
                // destroyed / never created groups must not be listed
                if let Reply::Frame(Frame::Array(gs)) = c.cmd(&["XINFO", "GROUPS", KEYS[k]]) {
                    if gs.len() != st.groups.len() {
                        return fail("xinfo-groups", format!("after {}: XINFO GROUPS {} lists {} groups, expected {}", after, KEYS[k], gs.len(), st.groups.len()));
                    }
                }
            }
        }
        Ok(())
    })();
    if receivers.len() >= 2 {
        labels.insert("two-or-more-consumers-received-entries");
    }
    let nontrivial = receivers.len() >= 2 && ["xclaim-moved-an-entry", "delconsumer-with-pending", "repeated-or-unknown-xack", "noack-read", "explicit-id-re-read"].iter().any(|l| labels.contains(l));
    let labels: Vec<String> = labels.iter().map(|s| s.to_string()).collect();
    let trace = Some(Value::Array(trace));
    match r {
        Ok(()) => CaseResult { verdict: Verdict::Pass, labels, nontrivial, excluded: vec![], trace },
        Err((what, sig)) if sig == "infra" => CaseResult { verdict: Verdict::Infra(what), labels, nontrivial, excluded: vec![], trace },
        Err((what, sig)) => CaseResult { verdict: Verdict::Fail { what, sig }, labels, nontrivial, excluded: vec![], trace },
    }
}

fn op2j(o: &Op) -> Value {
    match o {
        Op::Add { k, n } => json!({"op": "add", "k": k, "n": n}),
        Op::Create { k, g, start, pick, mkstream } => json!({"op": "create", "k": k, "g": g, "start": start, "pick": pick, "mkstream": mkstream}),
        Op::Destroy { k, g } => json!({"op": "destroy", "k": k, "g": g}),
        Op::SetId { k, g, start, pick } => json!({"op": "setid", "k": k, "g": g, "start": start, "pick": pick}),
        Op::CreateConsumer { k, g, c } => json!({"op": "createconsumer", "k": k, "g": g, "c": c}),
        Op::DelConsumer { k, g, c } => json!({"op": "delconsumer", "k": k, "g": g, "c": c}),
        Op::Read { k, g, c, count, noack } => json!({"op": "read", "k": k, "g": g, "c": c, "count": count, "noack": noack}),
        Op::ReadHistory { k, g, c, count } => json!({"op": "history", "k": k, "g": g, "c": c, "count": count}),
        Op::Ack { k, g, picks, unknown, twice } => json!({"op": "ack", "k": k, "g": g, "picks": picks, "unknown": unknown, "twice": twice}),
        Op::Claim { k, g, c, picks, never, justid, unknown, idle150 } => json!({"op": "claim", "k": k, "g": g, "c": c, "picks": picks, "never": never, "justid": justid, "unknown": unknown, "idle150": idle150}),
        Op::Sleep { ms } => json!({"op": "sleep", "ms": ms}),
        Op::Del { k, pick } => json!({"op": "del", "k": k, "pick": pick}),
    }
}

fn j2op(v: &Value) -> Option<Op> {
    let u = |k: &str| v.get(k).and_then(|x| x.as_u64()).unwrap_or(0) as usize;
    let b = |k: &str| v.get(k).and_then(|x| x.as_bool()).unwrap_or(false);
    let cnt = || v.get("count").and_then(|x| x.as_u64()).map(|x| x as usize);
    let picks = || v.get("picks").and_then(|p| p.as_array()).map(|a| a.iter().filter_map(|x| x.as_u64().map(|x| x as usize)).collect::<Vec<_>>()).unwrap_or_default();
    Some(match v.get("op")?.as_str()? {
        "add" => Op::Add { k: u("k") % 2, n: u("n").max(1) },
        "create" => Op::Create { k: u("k") % 2, g: u("g") % 2, start: u("start") as u8, pick: u("pick"), mkstream: b("mkstream") },
        "destroy" => Op::Destroy { k: u("k") % 2, g: u("g") % 2 },
        "setid" => Op::SetId { k: u("k") % 2, g: u("g") % 2, start: u("start") as u8, pick: u("pick") },
        "createconsumer" => Op::CreateConsumer { k: u("k") % 2, g: u("g") % 2, c: u("c") % 4 },
        "delconsumer" => Op::DelConsumer { k: u("k") % 2, g: u("g") % 2, c: u("c") % 4 },
        "read" => Op::Read { k: u("k") % 2, g: u("g") % 2, c: u("c") % 4, count: cnt(), noack: b("noack") },
        "history" => Op::ReadHistory { k: u("k") % 2, g: u("g") % 2, c: u("c") % 4, count: cnt() },
        "ack" => Op::Ack { k: u("k") % 2, g: u("g") % 2, picks: picks(), unknown: b("unknown"), twice: b("twice") },
        "claim" => Op::Claim { k: u("k") % 2, g: u("g") % 2, c: u("c") % 4, picks: picks(), never: b("never"), justid: b("justid"), unknown: b("unknown"), idle150: b("idle150") },
        "sleep" => Op::Sleep { ms: u("ms") as u32 },
        "del" => Op::Del { k: u("k") % 2, pick: u("pick") },
        _ => return None,
    })
}

pub fn run(tier: Tier, seed: u64, replay: Option<Value>) -> i32 {
    let ev = Mutex::new(Evidence::new(
        "C16",
        tier,
        seed,
        "exploration",
        "generated histories (4..40 operations) over two streams, two groups and four consumers: XADD of 1-4 entries with explicit increasing IDs (same-millisecond sequences and later milliseconds), XGROUP CREATE at 0 / $ / an existing ID with and without MKSTREAM (also duplicates and missing streams), DESTROY, SETID (also backwards), CREATECONSUMER, DELCONSUMER, XREADGROUP > with and without COUNT and NOACK, XREADGROUP with explicit ID 0 (re-read of the consumer's own pending entries), XACK of delivered, already acknowledged, never added and repeated IDs, XCLAIM with min-idle 0, 150 ms (decided by the harness clock, soundly: the server's stamp lies between sending a command and having its reply; interleaved with 260 ms sleeps; the idle time restarts at every claim) and one hour, with and without JUSTID, of pending, acknowledged and unknown IDs, XDEL of entries that are not pending. A model (group cursor, pending map id -> owner, consumer set) decides every reply: > reads deliver exactly the entries after the cursor in ID order, each carrying its own payload; NOACK advances the cursor without pending entries; XACK/XCLAIM/DELCONSUMER counts and results. After every step, for every live group: XPENDING summary (total, min, max, per-consumer counts), XPENDING - + range overall and per consumer, XINFO GROUPS (consumers, pending, last-delivered-id) and XINFO CONSUMERS (names, pending) must all equal the model — these are the four stored representations of the pending set. Non-trivial = >= 2 consumers received entries and an XCLAIM moved an entry, a consumer with pending entries was deleted, an XACK named a repeated/unknown ID, a NOACK read delivered, or an explicit-ID re-read returned entries; distinct by hash of the history",
    ));
    ev.lock().unwrap().assumptions.push("delivery counters and idle times are not compared (the property does not state them); entries that are pending are never deleted by the generator (what then happens to the pending entry is not stated by the property); a > read with nothing to deliver may answer nil or an empty array".into());
    let mk = |_: usize| Server::start(ServerOpts::default());
    if let Some(r) = replay {
        let c = r.get("case").unwrap_or(&r);
        let ops: Vec<Op> = c.get("ops").and_then(|o| o.as_array()).map(|a| a.iter().filter_map(j2op).collect()).unwrap_or_default();
        let mut server = match mk(0) {
            Ok(s) => s,
            Err(e) => {
                eprintln!("infrastructure: {}", e);
                return 2;
            }
        };
        let res = run_history(&mut server, &ops);
        crate::outln!("{}", serde_json::to_string_pretty(res.trace.as_ref().unwrap_or(&Value::Null)).unwrap());
        return match res.verdict {
            Verdict::Pass => {
                crate::outln!("replay: PASS");
                0
            }
            Verdict::Fail { what, sig } => {
                crate::outln!("replay: FAIL [{}] {}", sig, what);
                1
            }
            Verdict::Infra(m) => {
                crate::outln!("replay: inconclusive {}", m);
                2
            }
        };
    }
    let cfg = LoopCfg { cases: tier.pick(5000, 40000), workers: 12, max_shrink_execs: 300, max_violations: std::env::var("FVH_MAX_VIOL").ok().and_then(|s| s.parse().ok()).unwrap_or(8) };
    let max_len = tier.pick(40, 80);
    crate::driver::run_cases(&ev, &cfg, || proptest::collection::vec(op(), 4..=max_len), mk, |s, ops: &Vec<Op>| run_history(s, ops), |ops| json!({"ops": ops.iter().map(op2j).collect::<Vec<_>>()}));
    let e = ev.lock().unwrap();
    let _ = e.write();
    e.exit_code()
}
