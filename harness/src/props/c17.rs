//! C17 — with a password set, unauthenticated connections can neither read nor write.

use crate::client::{Client, Reply};
use crate::driver::{cmd2j, hash_debug, j2cmd, seeded_runner, Evidence, Tier};
use crate::dump::{self, Dump};
use crate::gen::bs;
use crate::model::{Bytes, Cmd};
use crate::resp::{self, encode_cmd, Frame};
use crate::sut::{Server, ServerOpts};
use proptest::prelude::*;
use proptest::strategy::ValueTree;
use serde_json::{json, Value};
use std::sync::Mutex;
use std::time::{Duration, Instant};

fn all_commands() -> Vec<String> {
    // include the process-stopping commands: an unauthenticated SHUTDOWN must be refused too
    let (mut c, _) = super::c06::commands_from_source();
    for s in ["SHUTDOWN", "SLEEP", "DEBUG", "REPLICAOF", "SLAVEOF", "CLIENT", "SYNC", "PSYNC", "MONITOR", "BGREWRITEAOF"] {
        c.push(s.to_string());
    }
    c.sort();
    c.dedup();
    c.retain(|n| !matches!(n.as_str(), "AUTH" | "PING" | "QUIT"));
    c
}

fn variants(name: &str) -> Vec<Cmd> {
    let n = name.as_bytes().to_vec();
    let fill = [bs("k"), bs("1"), bs("a"), bs("b")];
    let mut out: Vec<Cmd> = Vec::new();
    for nargs in 0..=4 {
        let mut c = vec![n.clone()];
        c.extend(fill[..nargs].iter().cloned());
        out.push(c);
    }
    // case and padding variants
    out.push(vec![name.to_lowercase().into_bytes(), bs("k")]);
    let mixed: String = name.chars().enumerate().map(|(i, ch)| if i % 2 == 0 { ch.to_ascii_lowercase() } else { ch }).collect();
    out.push(vec![mixed.into_bytes(), bs("k"), bs("v")]);
    out.push(vec![format!(" {} ", name).into_bytes(), bs("k")]);
    out
}

fn plausible() -> Vec<Cmd> {
    [
        vec!["GET", "secret"],
        vec!["SET", "secret", "overwritten"],
        vec!["SET", "intruder", "was-here"],
        vec!["DEL", "secret"],
        vec!["KEYS", "*"],
        vec!["SCAN", "0"],
        vec!["DBSIZE"],
        vec!["RANDOMKEY"],
        vec!["TYPE", "secret"],
        vec!["DUMP", "secret"],
        vec!["LRANGE", "list", "0", "-1"],
        vec!["RPUSH", "list", "x"],
        vec!["SMEMBERS", "set"],
        vec!["HGETALL", "hash"],
        vec!["ZRANGE", "zset", "0", "-1"],
        vec!["XRANGE", "stream", "-", "+"],
        vec!["XADD", "stream", "*", "f", "v"],
        vec!["FLUSHALL"],
        vec!["FLUSHDB"],
        vec!["SAVE"],
        vec!["BGSAVE"],
        vec!["SHUTDOWN"],
        vec!["SHUTDOWN", "NOSAVE"],
        vec!["SYNC"],
        vec!["PSYNC", "?", "-1"],
        vec!["PSYNC", "0000000000000000000000000000000000000000", "0"],
        vec!["REPLCONF", "listening-port", "1234"],
        vec!["REPLCONF", "capa", "eof"],
        vec!["REPLCONF", "ACK", "0"],
        vec!["REPLICAOF", "127.0.0.1", "1"],
        vec!["SLAVEOF", "NO", "ONE"],
        vec!["MONITOR"],
        vec!["SUBSCRIBE", "spy"],
        vec!["PSUBSCRIBE", "*"],
        vec!["UNSUBSCRIBE"],
        vec!["PUBLISH", "spy", "m"],
        vec!["EVAL", "return redis.call('GET','secret')", "0"],
        vec!["EVAL", "return redis.call('SET','intruder','x')", "0"],
        vec!["EVALSHA", "e0e1f9fabfc9d4800c877a703b823ac0578ff8db", "0"],
        vec!["SCRIPT", "LOAD", "return 1"],
        vec!["SCRIPT", "FLUSH"],
        vec!["MULTI"],
        vec!["EXEC"],
        vec!["WATCH", "secret"],
        vec!["SELECT", "1"],
        vec!["CONFIG", "GET", "*"],
        vec!["CONFIG", "GET", "requirepass"],
        vec!["CONFIG", "SET", "requirepass", ""],
        vec!["CLIENT", "LIST"],
        vec!["CLIENT", "KILL", "127.0.0.1:1"],
        vec!["CLIENT", "PAUSE", "100"],
        vec!["INFO"],
        vec!["INFO", "keyspace"],
        vec!["DEBUG", "SLEEP", "0"],
        vec!["SLEEP", "1"],
        vec!["MEMORY", "USAGE", "secret"],
        vec!["SLOWLOG", "GET"],
        vec!["COMMAND"],
        vec!["LASTSAVE"],
        vec!["BLPOP", "list", "0"],
        vec!["EXPIRE", "secret", "1"],
        vec!["RENAME", "secret", "stolen"],
        vec!["APPEND", "secret", "x"],
        vec!["INCR", "counter"],
        vec!["ECHO", "hello"],
        vec!["BGREWRITEAOF"],
        vec!["XGROUP", "CREATE", "stream", "g", "$"],
        vec!["XREADGROUP", "GROUP", "g", "c", "STREAMS", "stream", ">"],
    ]
    .iter()
    .map(|v| v.iter().map(|s| s.as_bytes().to_vec()).collect())
    .collect()
}

struct Sut {
    server: Server,
    password: String,
    control: Client,
    baseline: Dump,
}

fn dataset() -> Vec<Cmd> {
    [
        vec!["SET", "secret", "classified"],
        vec!["SET", "counter", "41"],
        vec!["RPUSH", "list", "a", "b"],
        vec!["SADD", "set", "a"],
        vec!["HSET", "hash", "f", "v"],
        vec!["ZADD", "zset", "1", "a"],
        vec!["XADD", "stream", "5-5", "f", "v"],
        vec!["SELECT", "1"],
        vec!["SET", "other-db", "x"],
        vec!["SELECT", "0"],
    ]
    .iter()
    .map(|v| v.iter().map(|s| s.as_bytes().to_vec()).collect())
    .collect()
}

impl Sut {
    fn start(password: &str) -> Result<Sut, String> {
        let server = Server::start(ServerOpts { password: Some(password.to_string()), ..Default::default() })?;
        let mut control = server.client().map_err(|e| e.to_string())?;
        match control.cmd(&[b"PING".as_ref()]) {
            Reply::Frame(Frame::Simple(_)) => {}
            r => return Err(format!("control connection is not served after AUTH: {:?}", r)),
        }
        for c in dataset() {
            match control.cmd(&c) {
                Reply::Frame(f) if !f.is_error() => {}
                r => return Err(format!("loading dataset: {:?}", r)),
            }
        }
        let baseline = dump::dump_server(&mut control, &[0, 1, 2])?;
        Ok(Sut { server, password: password.to_string(), control, baseline })
    }
}

/// Read until `expect` frames have arrived (at most 8 s), then until `quiet` has passed
/// without new bytes.
fn collect(c: &mut Client, quiet: Duration, expect: usize) -> (Vec<u8>, bool) {
    let _ = c.stream.set_nonblocking(true);
    let mut out = Vec::new();
    let mut closed = false;
    let mut last = Instant::now();
    let start = Instant::now();
    let mut buf = [0u8; 65536];
    let mut have = 0usize;
    while (last.elapsed() < quiet || have < expect) && start.elapsed() < Duration::from_secs(8) {
        if have < expect {
            have = resp::decode_all(&out).0.len();
            if have >= expect {
                last = Instant::now();
            }
        }
        match std::io::Read::read(&mut c.stream, &mut buf) {
            Ok(0) => {
                closed = true;
                break;
            }
            Ok(n) => {
                out.extend_from_slice(&buf[..n]);
                last = Instant::now();
            }
            Err(e) if e.kind() == std::io::ErrorKind::WouldBlock => std::thread::sleep(Duration::from_micros(300)),
            Err(_) => {
                closed = true;
                break;
            }
        }
    }
    let _ = c.stream.set_nonblocking(false);
    (out, closed)
}

fn is_exempt(c: &Cmd) -> bool {
    matches!(String::from_utf8_lossy(&c[0]).trim().to_uppercase().as_str(), "AUTH" | "PING" | "QUIT")
}

/// Send `prefix` commands then `probe` on a fresh unauthenticated connection and apply the oracle.
fn intrude(sut: &mut Sut, prefix: &[Cmd], probe: &Cmd, one_write: bool) -> Result<(), (String, String)> {
    let name = String::from_utf8_lossy(&probe[0]).trim().to_uppercase();
    let mut c = sut.server.raw_client().map_err(|e| (format!("infra: connect {}", e), "infra".to_string()))?;
    let mut bytes = Vec::new();
    for p in prefix {
        bytes.extend_from_slice(&encode_cmd(p));
    }
    if one_write {
        bytes.extend_from_slice(&encode_cmd(probe));
        let _ = c.send_raw(&bytes);
    } else {
        let _ = c.send_raw(&bytes);
        std::thread::sleep(Duration::from_millis(3));
        let _ = c.send_raw(&encode_cmd(probe));
    }
    let quiet = if matches!(name.as_str(), "SYNC" | "PSYNC" | "MONITOR" | "SUBSCRIBE" | "PSUBSCRIBE" | "BLPOP" | "BRPOP" | "SLEEP" | "DEBUG") { Duration::from_millis(150) } else { Duration::from_millis(40) };
    let (got, _closed) = collect(&mut c, quiet, prefix.len() + 1);
    let (frames, leftover, derr) = resp::decode_all(&got);
    if derr.is_some() || leftover > 0 {
        return Err((format!("unauthenticated {} received bytes that are not replies: {}", crate::model::show_cmd(probe), resp::show_bytes(&got[..got.len().min(200)])), format!("{}:unsolicited-bytes", name)));
    }
    // prefix replies: PING -> PONG, failed AUTH -> error
    if frames.len() != prefix.len() + 1 {
        return Err((format!("unauthenticated {} after {} prefix commands drew {} reply frames: {:?}", crate::model::show_cmd(probe), prefix.len(), frames.len(), frames), format!("{}:wrong-reply-count", name)));
    }
    let last = &frames[prefix.len()];
    if !last.is_error() {
        return Err((format!("unauthenticated {} was answered {:?} instead of an error", crate::model::show_cmd(probe), last), format!("{}:served-unauthenticated", name)));
    }
    // control side: process alive, dataset unchanged, nobody subscribed / replicating / monitoring
    if !sut.server.alive() {
        return Err((format!("unauthenticated {} ended the server process", crate::model::show_cmd(probe)), format!("{}:server-died", name)));
    }
    let canary = sut.control.cmd(&[b"SET".as_ref(), b"ctl:canary", b"1"]);
    let _ = sut.control.cmd(&[b"DEL".as_ref(), b"ctl:canary"]);
    if !matches!(canary, Reply::Frame(Frame::Simple(_))) {
        return Err((format!("after unauthenticated {} the control connection got {:?} for SET", crate::model::show_cmd(probe), canary), format!("{}:control-disturbed", name)));
    }
    let now = dump::dump_server(&mut sut.control, &[0, 1, 2]).map_err(|e| (format!("control dump failed after unauthenticated {}: {}", crate::model::show_cmd(probe), e), format!("{}:control-disturbed", name)))?;
    if let Some(d) = dump::diff(&sut.baseline, &now) {
        return Err((format!("unauthenticated {} changed the dataset: {}", crate::model::show_cmd(probe), d), format!("{}:side-effect", name)));
    }
    for ch in [b"spy".as_ref(), b"k", b"1", b"a"] {
        match sut.control.cmd(&[b"PUBLISH".as_ref(), ch, b"m"]) {
            Reply::Frame(Frame::Int(0)) => {}
            r => return Err((format!("after unauthenticated {} PUBLISH {} reports {:?} receivers", crate::model::show_cmd(probe), String::from_utf8_lossy(ch), r), format!("{}:subscribed-unauthenticated", name))),
        }
    }
    match sut.control.cmd(&[b"INFO".as_ref(), b"replication"]) {
        Reply::Frame(f) => {
            let txt = String::from_utf8_lossy(f.as_bytes().unwrap_or(b"")).to_string();
            if let Some(l) = txt.lines().find(|l| l.starts_with("connected_slaves:")) {
                if l.trim() != "connected_slaves:0" {
                    return Err((format!("after unauthenticated {} INFO replication says {}", crate::model::show_cmd(probe), l.trim()), format!("{}:replica-attached-unauthenticated", name)));
                }
            }
        }
        r => return Err((format!("INFO replication -> {:?}", r), format!("{}:control-disturbed", name))),
    }
    // nothing more may reach the intruder (monitor feed, replication stream, pushes)
    let (more, _) = collect(&mut c, Duration::from_millis(15), 0);
    if !more.is_empty() {
        return Err((format!("unauthenticated connection that sent {} later received unsolicited bytes: {}", crate::model::show_cmd(probe), resp::show_bytes(&more[..more.len().min(200)])), format!("{}:unsolicited-bytes", name)));
    }
    Ok(())
}

// ---------- generated AUTH histories ----------

#[derive(Debug, Clone)]
enum AStep {
    WrongAuth(u8, Bytes),
    Cmd(Cmd),
    RightAuth,
}

fn wrong_password(kind: u8, pw: &str, extra: &[u8]) -> Bytes {
    let p = pw.as_bytes();
    match kind % 10 {
        0 => p[..p.len() - 1].to_vec(),
        1 => [p, b"x"].concat(),
        2 => pw.to_uppercase().into_bytes(),
        3 => pw.to_lowercase().into_bytes(),
        4 => Vec::new(),
        5 => [b" ".as_ref(), p, b" "].concat(),
        6 => [p, b"\0"].concat(),
        7 => extra.to_vec(),
        8 => vec![b'A'; 65536],
        _ => [p, b"\r\n"].concat(),
    }
}

fn auth_history() -> BoxedStrategy<Vec<AStep>> {
    let cmds = plausible();
    let step = prop_oneof![
        3 => (any::<u8>(), proptest::collection::vec(any::<u8>(), 0..12)).prop_map(|(k, e)| AStep::WrongAuth(k, e)),
        4 => proptest::sample::select(cmds).prop_map(AStep::Cmd),
    ];
    (proptest::collection::vec(step, 1..10), any::<bool>())
        .prop_map(|(mut s, right)| {
            if right {
                s.push(AStep::RightAuth);
            }
            s
        })
        .boxed()
}

fn run_history(sut: &mut Sut, h: &[AStep]) -> Result<bool, (String, String)> {
    let mut c = sut.server.raw_client().map_err(|e| (format!("infra: {}", e), "infra".into()))?;
    c.default_timeout = Duration::from_millis(1500);
    let mut authed = false;
    for st in h {
        match st {
            AStep::WrongAuth(k, extra) => {
                let w = wrong_password(*k, &sut.password, extra);
                if w == sut.password.as_bytes() {
                    continue;
                }
                match c.cmd(&[b"AUTH".to_vec(), w.clone()]) {
                    Reply::Frame(Frame::Error(_)) => {}
                    r => return Err((format!("AUTH with a wrong password ({}) was answered {:?}", resp::show_bytes(&w[..w.len().min(40)]), r), "AUTH:wrong-password-accepted".into())),
                }
            }
            AStep::Cmd(cm) => {
                let name = String::from_utf8_lossy(&cm[0]).to_uppercase();
                if matches!(name.as_str(), "BLPOP" | "SHUTDOWN" | "SUBSCRIBE" | "PSUBSCRIBE" | "MONITOR" | "SYNC" | "PSYNC" | "SLEEP" | "DEBUG" | "FLUSHALL" | "FLUSHDB" | "CLIENT" | "REPLICAOF" | "SLAVEOF") {
                    // these are covered by the enumeration; here they would disturb the shared server
                    continue;
                }
                match c.cmd(cm) {
                    Reply::Frame(Frame::Error(_)) => {}
                    r => return Err((format!("unauthenticated {} (after failed AUTH attempts) was answered {:?}", crate::model::show_cmd(cm), r), format!("{}:served-unauthenticated", name))),
                }
            }
            AStep::RightAuth => {
                match c.cmd(&[b"AUTH".as_ref(), sut.password.as_bytes()]) {
                    Reply::Frame(Frame::Simple(s)) if s == b"OK" => authed = true,
                    r => return Err((format!("AUTH with the exact password was answered {:?}", r), "AUTH:right-password-refused".into())),
                }
                match c.cmd(&[b"GET".as_ref(), b"secret"]) {
                    Reply::Frame(Frame::Bulk(b)) if b == b"classified" => {}
                    r => return Err((format!("after a successful AUTH, GET secret -> {:?}", r), "AUTH:not-served-after-auth".into())),
                }
                // authentication is per connection
                let mut other = sut.server.raw_client().map_err(|e| (format!("infra: {}", e), "infra".into()))?;
                match other.cmd(&[b"GET".as_ref(), b"secret"]) {
                    Reply::Frame(Frame::Error(_)) => {}
                    r => return Err((format!("another connection was served without AUTH after this one authenticated: {:?}", r), "AUTH:leaks-to-other-connection".into())),
                }
            }
        }
    }
    let now = dump::dump_server(&mut sut.control, &[0, 1, 2]).map_err(|e| (e, "control-disturbed".to_string()))?;
    if let Some(d) = dump::diff(&sut.baseline, &now) {
        return Err((format!("unauthenticated history changed the dataset: {}", d), "side-effect".into()));
    }
    Ok(authed)
}

pub fn run(tier: Tier, seed: u64, replay: Option<Value>) -> i32 {
    let ev = Mutex::new(Evidence::new(
        "C17",
        tier,
        seed,
        "exploration",
        "server started with a generated password (on the command line, or - every second alphanumeric one - by a requirepass line in a configuration file, merged by the server's own Config::apply_cli_args) and a pre-loaded dataset in three databases, one authenticated control connection. (a) enumerated: every command name the server dispatches (read from the source, including SYNC/PSYNC/REPLCONF/MONITOR/SUBSCRIBE/SHUTDOWN/CLIENT/DEBUG) with 0..4 arguments, lower/mixed-case and space-padded spellings, plus ~70 plausible attack forms, each on a fresh unauthenticated connection in seven contexts (alone; after PING; after a failed AUTH; third in a pipelined write; in the same write as a failing AUTH, a malformed AUTH, a PING plus two-argument AUTH). Oracle: exactly one error frame and no other byte; server alive; control connection still served; canonical dump of the dataset unchanged; PUBLISH to every channel the intruder could have named reports 0 receivers; INFO replication shows no replica; nothing reaches the intruder while the control connection writes. (a') intruders streaming pipelined SETs while the control connection closes them all with CLIENT KILL in one write: no key may appear. (b) generated histories of wrong passwords (prefix, extension, case changes, empty, padded, NUL/CRLF-suffixed, random binary, 64 KB) interleaved with commands, then the exact password: wrong ones are errors, the right one authenticates this connection only. Non-trivial = every enumerated (command form, context) pair and every history with at least one wrong AUTH; distinct by hash",
    ));
    if let Some(r) = replay {
        let c = r.get("case").unwrap_or(&r);
        let mut sut = match Sut::start("s3cretPw") {
            Ok(s) => s,
            Err(e) => {
                eprintln!("infrastructure: {}", e);
                return 2;
            }
        };
        let probe = j2cmd(c.get("cmd").unwrap_or(&Value::Null));
        let prefix: Vec<Cmd> = c.get("prefix").and_then(|p| p.as_array()).map(|a| a.iter().map(j2cmd).collect()).unwrap_or_default();
        let r = intrude(&mut sut, &prefix, &probe, c.get("one_write").and_then(|x| x.as_bool()).unwrap_or(false));
        crate::outln!("replay: {:?}", r);
        return if r.is_ok() { 0 } else { 1 };
    }
    // the enumeration
    let mut probes: Vec<Cmd> = Vec::new();
    for name in all_commands() {
        probes.extend(variants(&name));
    }
    probes.extend(plausible());
    probes.retain(|c| !is_exempt(c));
    let contexts: Vec<(Vec<Cmd>, bool, &str)> = vec![
        (vec![], false, "alone"),
        (vec![crate::model::cmd(&["PING"])], false, "after-ping"),
        (vec![crate::model::cmd(&["AUTH", "not-the-password"])], false, "after-failed-auth"),
        (vec![crate::model::cmd(&["PING"]), crate::model::cmd(&["PING"])], true, "pipelined-third"),
        // a failing AUTH in the *same write* as the command: per-batch state must not leak
        (vec![crate::model::cmd(&["AUTH", "not-the-password"])], true, "same-write-after-failed-auth"),
        (vec![crate::model::cmd(&["AUTH"])], true, "same-write-after-malformed-auth"),
        (vec![crate::model::cmd(&["PING"]), crate::model::cmd(&["AUTH", "user", "not-the-password"])], true, "same-write-after-ping-and-two-argument-auth"),
    ];
    let stride = tier.pick(2usize, 1usize);
    let mut cases: Vec<(usize, usize)> = Vec::new();
    for (pi, _) in probes.iter().enumerate() {
        for (ci, _) in contexts.iter().enumerate() {
            // quick: every form in at least two contexts (rotating), the plausible forms in all
            if stride == 1 || (pi + ci + seed as usize) % stride == 0 || pi >= probes.len() - plausible().len() {
                cases.push((pi, ci));
            }
        }
    }
    {
        let mut e = ev.lock().unwrap();
        e.extra.insert("command_forms".into(), json!(probes.len()));
        e.extra.insert("contexts".into(), json!(contexts.iter().map(|c| c.2).collect::<Vec<_>>()));
        e.extra.insert("exhaustive_over_forms_x_contexts".into(), json!(stride == 1));
    }
    let mut runner = seeded_runner(seed, 1700);
    let pw_strat = "[A-Za-z0-9!#%&*+=?_-]{2,40}";
    let workers = crate::workers();
    let passwords: Vec<String> = (0..workers).map(|_| pw_strat.new_tree(&mut runner).unwrap().current()).collect();
    let next = std::sync::atomic::AtomicUsize::new(0);
    std::thread::scope(|sc| {
        for wi in 0..workers {
            let (ev, cases, probes, contexts, next, passwords) = (&ev, &cases, &probes, &contexts, &next, &passwords);
            sc.spawn(move || {
                let mut sut = match Sut::start(&passwords[wi]) {
                    Ok(s) => s,
                    Err(e) => {
                        ev.lock().unwrap().infra.push(format!("start: {}", e));
                        return;
                    }
                };
                loop {
                    let i = next.fetch_add(1, std::sync::atomic::Ordering::SeqCst);
                    if i >= cases.len() {
                        break;
                    }
                    let (pi, ci) = cases[i];
                    let probe = &probes[pi];
                    let (prefix, one_write, cname) = &contexts[ci];
                    let r = intrude(&mut sut, prefix, probe, *one_write);
                    let mut e = ev.lock().unwrap();
                    e.evaluations += 1;
                    e.count_label(&format!("context:{}", cname), 1);
                    e.nontrivial.insert(hash_debug(&(probe, ci)));
                    if i % 397 == 0 && e.samples.len() < 4 {
                        e.samples.push(json!({"kind": "intrusion", "context": cname, "cmd": crate::model::show_cmd(probe)}));
                    }
                    if let Err((what, sig)) = r {
                        if sig == "infra" {
                            e.infra.push(what);
                        } else {
                            e.violation(&format!("[{}] {}", cname, what), &sig, json!({"kind": "intrusion", "cmd": cmd2j(probe), "prefix": prefix.iter().map(|c| cmd2j(c)).collect::<Vec<_>>(), "one_write": one_write}));
                        }
                        drop(e);
                        match Sut::start(&passwords[wi]) {
                            Ok(s) => sut = s,
                            Err(_) => return,
                        }
                    }
                }
            });
        }
    });
    // connections being closed by an administrator: a connection that is on its way out is still
    // unauthenticated (schedule-dependent: intruders stream writes while the control connection
    // kills them all in one pipelined write)
    {
        let rounds = tier.pick(8u64, 80u64);
        match Sut::start(&passwords[0]) {
            Err(e) => ev.lock().unwrap().infra.push(e),
            Ok(mut sut) => {
                for round in 0..rounds {
                    // a fresh administrator connection every round: where it sits in the server's
                    // connection table relative to the intruders decides who is served first
                    // (connection ids are sequential and sharded by id: a varying number of
                    // throw-away connections moves the administrator through the table)
                    for _ in 0..(round * 5 + seed) % 7 {
                        let _ = sut.server.raw_client();
                    }
                    let mut admin = match sut.server.client() {
                        Ok(c) => c,
                        Err(e) => {
                            ev.lock().unwrap().infra.push(e.to_string());
                            break;
                        }
                    };
                    let mut intruders: Vec<Client> = Vec::new();
                    for _ in 0..(11 + (round * 3) % 6) {
                        if let Ok(c) = sut.server.raw_client() {
                            intruders.push(c);
                        }
                    }
                    let mut kills = Vec::new();
                    for c in intruders.iter() {
                        if let Ok(a) = c.stream.local_addr() {
                            kills.extend(crate::resp::encode_cmd(&["CLIENT", "KILL", "ADDR", &a.to_string()]));
                        }
                    }
                    let stop = std::sync::atomic::AtomicBool::new(false);
                    std::thread::scope(|sc| {
                        for (vi, mut c) in intruders.drain(..).enumerate() {
                            let stop = &stop;
                            sc.spawn(move || {
                                // never authenticates; keeps writes in flight and discards replies
                                let _ = c.stream.set_nonblocking(true);
                                let mut n = 0u64;
                                let mut pending: Vec<u8> = Vec::new();
                                let mut sink = [0u8; 65536];
                                while !stop.load(std::sync::atomic::Ordering::Relaxed) {
                                    use std::io::{Read, Write};
                                    match c.stream.read(&mut sink) {
                                        Ok(0) => return,
                                        _ => {}
                                    }
                                    if pending.is_empty() {
                                        for _ in 0..(if vi % 2 == 0 { 40 } else { 400 }) {
                                            n += 1;
                                            pending.extend(crate::resp::encode_cmd(&[b"SET".to_vec(), format!("pwned:{}:{}:{}", round, vi, n).into_bytes(), b"x".to_vec()]));
                                        }
                                    }
                                    match c.stream.write(&pending) {
                                        Ok(k) => {
                                            pending.drain(..k);
                                            // half of the intruders trickle, half flood
                                            if vi % 2 == 0 {
                                                std::thread::sleep(Duration::from_micros(300));
                                            }
                                        }
                                        Err(e) if e.kind() == std::io::ErrorKind::WouldBlock => std::thread::sleep(Duration::from_micros(200)),
                                        Err(_) => return,
                                    }
                                }
                            });
                        }
                        std::thread::sleep(Duration::from_millis(250));
                        // one write: all kills run in the same event-loop pass
                        let _ = admin.send_raw(&kills);
                        let _ = admin.drain_for(Duration::from_millis(300));
                        stop.store(true, std::sync::atomic::Ordering::Relaxed);
                    });
                    std::thread::sleep(Duration::from_millis(100));
                    // (a fresh connection: it looks at database 0, where the intruders wrote)
                    let r = match sut.server.client() {
                        Ok(mut fresh) => fresh.cmd(&["KEYS", "pwned:*"]),
                        Err(e) => {
                            ev.lock().unwrap().infra.push(e.to_string());
                            break;
                        }
                    };
                    let mut e = ev.lock().unwrap();
                    e.evaluations += 1;
                    e.count_label("kill-race-round", 1);
                    e.nontrivial.insert(hash_debug(&("kill-race", round, seed)));
                    match r {
                        Reply::Frame(Frame::Array(v)) if v.is_empty() => {}
                        Reply::Frame(Frame::Array(v)) => {
                            e.violation(
                                &format!("[kill-race] {} keys written by connections that never authenticated (they were being closed by CLIENT KILL while their SETs were in flight), e.g. {:?}", v.len(), v.first()),
                                "write-by-unauthenticated-closing-connection",
                                json!({"kind": "kill-race", "round": round, "note": "schedule-dependent"}),
                            );
                            break;
                        }
                        other => {
                            e.infra.push(format!("kill-race: KEYS -> {:?}", other));
                            break;
                        }
                    }
                }
            }
        }
    }
    // generated AUTH histories
    let nh = tier.pick(600u64, 10_000u64);
    let strat = auth_history();
    let hist: Vec<Vec<AStep>> = (0..nh).map(|_| strat.new_tree(&mut runner).unwrap().current()).collect();
    let next = std::sync::atomic::AtomicUsize::new(0);
    std::thread::scope(|sc| {
        for wi in 0..workers {
            let (ev, hist, next, passwords) = (&ev, &hist, &next, &passwords);
            sc.spawn(move || {
                let mut sut = match Sut::start(&passwords[wi]) {
                    Ok(s) => s,
                    Err(_) => return,
                };
                loop {
                    let i = next.fetch_add(1, std::sync::atomic::Ordering::SeqCst);
                    if i >= hist.len() {
                        break;
                    }
                    let r = run_history(&mut sut, &hist[i]);
                    let mut e = ev.lock().unwrap();
                    e.evaluations += 1;
                    e.count_label("auth-history", 1);
                    if hist[i].iter().any(|s| matches!(s, AStep::WrongAuth(..))) {
                        e.nontrivial.insert(hash_debug(&hist[i]));
                    }
                    match r {
                        Ok(true) => e.count_label("auth-history-ending-authenticated", 1),
                        Ok(false) => {}
                        Err((what, sig)) => {
                            if sig == "infra" {
                                e.infra.push(what);
                            } else {
                                e.violation(&what, &sig, json!({"kind": "auth-history", "steps": format!("{:?}", hist[i]).chars().take(2000).collect::<String>()}));
                            }
                            drop(e);
                            match Sut::start(&passwords[wi]) {
                                Ok(s) => sut = s,
                                Err(_) => return,
                            }
                        }
                    }
                }
            });
        }
    });
    let e = ev.lock().unwrap();
    let _ = e.write();
    e.exit_code()
}
