//! C18 — numbered databases are fully isolated from one another.

use super::hist::HistSpec;
use crate::findings::Active;
use crate::gen::bs;
use crate::model::{Cmd, World, WRAP_SCRIPT};
use crate::runner::Step;
use proptest::prelude::*;
use proptest::sample::select;

fn c(conn: usize, parts: &[&str]) -> Step {
    Step::Cmd { conn, args: crate::model::cmd(parts) }
}

/// Commands the scripting path is trusted to implement like the direct path (their effect is
/// compared through the 16-database dump).
fn script_safe(k: BoxedStrategy<Vec<u8>>) -> BoxedStrategy<Cmd> {
    let v = select(vec![bs("v"), bs("1"), bs("x")]).boxed();
    prop_oneof![
        4 => (k.clone(), v.clone()).prop_map(|(k, v)| vec![bs("SET"), k, v]),
        2 => k.clone().prop_map(|k| vec![bs("GET"), k]),
        2 => k.clone().prop_map(|k| vec![bs("INCR"), k]),
        2 => k.clone().prop_map(|k| vec![bs("DEL"), k]),
        2 => k.clone().prop_map(|k| vec![bs("EXISTS"), k]),
        2 => (k.clone(), v.clone()).prop_map(|(k, v)| vec![bs("RPUSH"), k, v]),
        2 => (k.clone(), v.clone()).prop_map(|(k, v)| vec![bs("LPUSH"), k, v]),
        1 => k.clone().prop_map(|k| vec![bs("LPOP"), k]),
        2 => (k.clone(), v.clone()).prop_map(|(k, v)| vec![bs("SADD"), k, v]),
        2 => (k.clone(), v.clone()).prop_map(|(k, v)| vec![bs("HSET"), k, bs("f"), v]),
        2 => (k.clone(), v.clone()).prop_map(|(k, v)| vec![bs("ZADD"), k, bs("1"), v]),
        2 => Just(vec![bs("DBSIZE")]),
        2 => Just(vec![bs("KEYS"), bs("*")]),
        1 => Just(vec![bs("FLUSHDB")]),
        1 => Just(vec![bs("FLUSHALL")]),
        1 => Just(vec![bs("RANDOMKEY")]),
    ]
    .boxed()
}

fn block() -> BoxedStrategy<Vec<Step>> {
    let nconns = 3usize;
    let k = select(vec![bs("k"), bs("j"), bs("l")]).boxed();
    let data = crate::gen::mixed_data_cmd(k.clone());
    let dbarg = prop_oneof![
        10 => select(vec![bs("0"), bs("1"), bs("2"), bs("15"), bs("7")]),
        3 => select(vec![bs("16"), bs("-1"), bs("18446744073709551616"), bs("abc"), bs(""), bs("99999999999999999999")]),
    ];
    let select_cmd = dbarg.prop_map(|d| vec![bs("SELECT"), d]).boxed();
    let whole = prop_oneof![
        Just(vec![bs("DBSIZE")]),
        Just(vec![bs("KEYS"), bs("*")]),
        Just(vec![bs("RANDOMKEY")]),
        Just(vec![bs("SCAN"), bs("0"), bs("COUNT"), bs("1000")]),
        Just(vec![bs("FLUSHDB")]),
        Just(vec![bs("FLUSHALL")]),
    ]
    .boxed();
    let wrap = |inner: Cmd| {
        let mut a = vec![bs("EVAL"), WRAP_SCRIPT.to_vec(), bs("0")];
        a.extend(inner);
        a
    };
    let sha = crate::sha1::sha1_hex(WRAP_SCRIPT);
    let wrapsha = move |inner: Cmd| {
        let mut a = vec![bs("EVALSHA"), sha.clone().into_bytes(), bs("0")];
        a.extend(inner);
        a
    };
    prop_oneof![
        // SELECT on some connection
        8 => (0..nconns, select_cmd.clone()).prop_map(|(conn, args)| vec![Step::Cmd { conn, args }]),
        // direct commands
        12 => (0..nconns, data.clone()).prop_map(|(conn, args)| vec![Step::Cmd { conn, args }]),
        4 => (0..nconns, whole.clone()).prop_map(|(conn, args)| vec![Step::Cmd { conn, args }]),
        // transaction, possibly with SELECT inside
        5 => (0..nconns, proptest::collection::vec(prop_oneof![5 => data.clone(), 2 => select_cmd.clone(), 1 => whole.clone()], 1..5)).prop_map(|(conn, q)| {
            let mut s = vec![c(conn, &["MULTI"])];
            for a in q { s.push(Step::Cmd { conn, args: a }); }
            s.push(c(conn, &["EXEC"]));
            s
        }),
        // scripts: EVAL and EVALSHA of the wrapper
        6 => (0..nconns, script_safe(k.clone())).prop_map(move |(conn, inner)| vec![Step::Cmd { conn, args: wrap(inner) }]),
        5 => (0..nconns, script_safe(k.clone())).prop_map(move |(conn, inner)| vec![
            Step::Cmd { conn, args: vec![bs("SCRIPT"), bs("LOAD"), WRAP_SCRIPT.to_vec()] },
            Step::Cmd { conn, args: wrapsha(inner) },
        ]),
        // a blocked BLPOP in its own database while pushes arrive elsewhere, then here
        3 => (0..nconns, 1..nconns, select(vec![bs("1"), bs("2"), bs("0")]), select(vec![bs("3"), bs("5"), bs("4")]), select(vec![bs("BLPOP"), bs("BRPOP")])).prop_map(|(a, off, dbi, dbj, pop)| {
            let b = (a + off) % 3;
            vec![
                Step::Cmd { conn: a, args: vec![bs("SELECT"), dbi.clone()] },
                Step::Cmd { conn: a, args: vec![bs("DEL"), bs("bq")] },
                Step::Send { conn: a, args: vec![pop, bs("bq"), bs("0")] },
                Step::Cmd { conn: b, args: vec![bs("SELECT"), dbj.clone()] },
                Step::Cmd { conn: b, args: vec![bs("RPUSH"), bs("bq"), bs("elsewhere")] },
                Step::Cmd { conn: b, args: vec![bs("SELECT"), dbi] },
                Step::Cmd { conn: b, args: vec![bs("RPUSH"), bs("bq"), bs("here")] },
                Step::Recv { conn: a },
            ]
        }),
        // WATCH here, change the same name elsewhere / here
        3 => (0..nconns, 1..nconns, select(vec![bs("1"), bs("0")]), select(vec![bs("2"), bs("1"), bs("0")])).prop_map(|(a, off, dbi, dbj)| {
            let b = (a + off) % 3;
            vec![
                Step::Cmd { conn: a, args: vec![bs("SELECT"), dbi] },
                Step::Cmd { conn: a, args: vec![bs("WATCH"), bs("k")] },
                Step::Cmd { conn: b, args: vec![bs("SELECT"), dbj] },
                Step::Cmd { conn: b, args: vec![bs("SET"), bs("k"), bs("w")] },
                c(a, &["MULTI"]),
                c(a, &["SET", "probe", "1"]),
                c(a, &["EXEC"]),
            ]
        }),
        1 => (0..nconns).prop_map(|conn| vec![Step::Reconnect { conn }]),
    ]
    .boxed()
}

fn history(max_len: usize) -> BoxedStrategy<Vec<Step>> {
    proptest::collection::vec(block(), 2..=std::cmp::max(3, max_len / 2)).prop_map(|b| b.concat()).boxed()
}

fn nontrivial(w: &World) -> bool {
    // the same key name live in >= 2 databases and touched through >= 2 paths
    let mut names = std::collections::BTreeMap::new();
    for (i, d) in w.dbs.iter().enumerate() {
        for k in d.keys.keys() {
            names.entry(k.clone()).or_insert_with(Vec::new).push(i);
        }
    }
    let multi_db = names.values().any(|v| v.len() >= 2);
    let paths = ["via-script", "via-evalsha", "exec>=2", "blocking-pop-served", "watch-abort", "watch-pass"].iter().filter(|l| w.labels.contains(**l)).count();
    multi_db && paths >= 1 && w.labels.contains("select-nonzero")
}

fn excluder(a: &Active, w: &mut World, conn: usize, cm: &Cmd) -> Option<&'static str> {
    super::kf::common_excluder(a, w, conn, cm)
}

pub fn spec() -> HistSpec {
    HistSpec {
        id: "C18",
        rule: "generated histories of 2..20 blocks over 3 connections: SELECT of valid and invalid indexes, commands of every family on a shared 3-key pool sent directly, queued in MULTI/EXEC (with SELECT inside the transaction), through EVAL and EVALSHA of a wrapper script (commands and whole-keyspace views DBSIZE/KEYS/FLUSHDB/FLUSHALL/RANDOMKEY), a BLPOP/BRPOP blocked in database i while pushes arrive in j and then in i, WATCH in i followed by a change of the same name in j, FLUSHDB/FLUSHALL, KEYS/SCAN/DBSIZE/RANDOMKEY; every reply is compared with a 16-way model for the connection's selected database at that time, and a canonical dump of all 16 databases is compared after every refused command and at the end. Non-trivial = the same key name live in >= 2 databases, a non-zero database selected, and at least one non-direct path used; distinct by hash of the step list",
        history: Some(history),
        max_len: 20,
        quick_cases: 3000,
        thorough_cases: 60000,
        nontrivial,
        probes: vec![(super::kf::K_LAX_INT, super::kf::probe_lax_int)],
        excluder,
        label_floors: vec![("select-nonzero", 500), ("select-refused", 200), ("via-script", 300), ("via-evalsha", 200), ("blocking-pop-served", 100), ("exec>=2", 200)],
        assumptions: vec!["commands issued through the wrapper script: reply content is not judged (C12), their effect is, through the dump of all 16 databases; only commands whose script-path effect equals the direct effect are wrapped"],
        nconns: 3,
        lenient_scripts: true,
        script_uncertain: false,
        dump_dbs: (0..16).collect(),
        ..Default::default()
    }
}
