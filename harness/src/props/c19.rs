//! C19 — a full SCAN iteration returns every element present throughout it.
//!
//! One case = one collection (the key space of a database with mixed types, or the fields /
//! members of one hash / set / sorted set), a designated stable set that is never touched, a
//! volatile set that is added to and deleted from between successive calls, and one full cursor
//! iteration with generated COUNT, MATCH and TYPE.

use crate::client::{Client, Reply};
use crate::driver::{CaseResult, Evidence, LoopCfg, Tier, Verdict};
use crate::model::glob::glob_match;
use crate::model::Bytes;
use crate::resp::{encode_cmd, show_bytes, Frame};
use crate::sut::{Server, ServerOpts};
use proptest::prelude::*;
use proptest::sample::select;
use serde_json::{json, Value};
use std::collections::{BTreeMap, BTreeSet};
use std::sync::Mutex;

#[derive(Clone, Debug, PartialEq)]
pub enum Kind {
    Keys,
    Hash,
    Set,
    ZSet,
}

#[derive(Clone, Debug)]
pub struct Case {
    pub kind: Kind,
    /// element name -> type index (Keys) ; never modified
    pub stable: Vec<(Bytes, u8)>,
    /// present at the start, may be deleted / re-added
    pub volatile_initial: Vec<(Bytes, u8)>,
    pub count: Option<u64>,
    pub pattern: Option<Bytes>,
    pub type_filter: Option<u8>,
    /// HSCAN only: NOVALUES (the reply holds fields only)
    pub novalues: bool,
    /// options in the order COUNT, MATCH instead of MATCH, COUNT
    pub count_first: bool,
    /// batch i is applied after call i: (add?, index into the volatile pool)
    pub mods: Vec<Vec<(bool, usize)>>,
    /// volatile pool (superset of volatile_initial names)
    pub pool: Vec<(Bytes, u8)>,
}

const TYPES: [&str; 6] = ["string", "list", "set", "hash", "zset", "stream"];

fn name() -> BoxedStrategy<Bytes> {
    prop_oneof![
        4 => (select(vec!["a", "ab", "key:", "k", "user:1:", "", "z"]), 0u32..2000).prop_map(|(p, n)| format!("{}{}", p, n).into_bytes()),
        2 => proptest::collection::vec(select(vec![b'a', b'b', b'k', b':', b'0', b'1', b'*', b'[', 0xffu8, 0x00, b' ']), 1..6),
        1 => proptest::collection::vec(any::<u8>(), 1..12),
        1 => (1usize..60).prop_map(|n| vec![b'x'; n]),
    ]
    .boxed()
}

fn pattern() -> BoxedStrategy<Bytes> {
    prop_oneof![
        3 => select(vec![b"*".to_vec(), b"a*".to_vec(), b"*1*".to_vec(), b"k?y*".to_vec(), b"[ak]*".to_vec(), b"key:1?".to_vec(), b"*:*".to_vec(), b"ab*".to_vec(), b"nomatch*".to_vec(), b"\\**".to_vec(), b"*\xff*".to_vec(), b"x*x".to_vec()]),
        1 => crate::gen::glob_pattern(),
    ]
    .boxed()
}

fn case(max_n: usize) -> BoxedStrategy<Case> {
    let kind = prop_oneof![3 => Just(Kind::Keys), 2 => Just(Kind::Hash), 2 => Just(Kind::Set), 2 => Just(Kind::ZSet)];
    let size = prop_oneof![1 => 0usize..4, 3 => 4usize..40, 2 => 40..max_n.max(41)];
    (kind, size, prop_oneof![2 => 0usize..10, 2 => 10usize..80])
        .prop_flat_map(|(kind, ns, nv)| {
            let named = |n: usize| proptest::collection::vec((name(), 0u8..6), n..=n);
            (
                Just(kind),
                named(ns),
                named(nv),
                named(nv / 2 + 1),
                proptest::option::weighted(0.85, select(vec![1u64, 2, 3, 7, 10, 11, 100, 1000, 1_000_000])),
                proptest::option::weighted(0.4, pattern()),
                proptest::option::weighted(0.3, 0u8..6),
                proptest::collection::vec(proptest::collection::vec((any::<bool>(), any::<prop::sample::Index>()), 0..12), 0..14),
                (prop::bool::weighted(0.4), any::<bool>()),
            )
        })
        .prop_map(|(kind, stable, vol, extra, count, pattern, type_filter, mods, (novalues, count_first))| {
            // names must be unique across stable and volatile
            let mut seen = BTreeSet::new();
            let stable: Vec<(Bytes, u8)> = stable.into_iter().filter(|(n, _)| seen.insert(n.clone())).collect();
            let vol: Vec<(Bytes, u8)> = vol.into_iter().filter(|(n, _)| seen.insert(n.clone())).collect();
            let extra: Vec<(Bytes, u8)> = extra.into_iter().filter(|(n, _)| seen.insert(n.clone())).collect();
            let mut pool = vol.clone();
            pool.extend(extra);
            let plen = pool.len().max(1);
            let mods = mods.into_iter().map(|b| b.into_iter().map(|(add, ix)| (add, ix.index(plen))).collect()).collect();
            let type_filter = if kind == Kind::Keys { type_filter } else { None };
            let novalues = novalues && kind == Kind::Hash;
            Case { kind, stable, volatile_initial: vol, count, pattern, type_filter, novalues, count_first, mods, pool }
        })
        .boxed()
}

const COLL: &[u8] = b"scan:collection";

/// value / score an element is given (a function of its name, so that HSCAN values and ZSCAN
/// scores can be checked without tracking)
fn value_of(n: &Bytes) -> Bytes {
    let mut v = b"v:".to_vec();
    v.extend_from_slice(n);
    v
}

fn score_of(n: &Bytes) -> i64 {
    (n.iter().fold(7u64, |a, b| a.wrapping_mul(31).wrapping_add(*b as u64)) % 2001) as i64 - 1000
}

/// The score as sent and as expected back: one member in eight sits at an infinity.
fn score_text(n: &Bytes) -> (String, f64) {
    match score_of(n).rem_euclid(8) {
        0 if n.len() % 2 == 0 => ("+inf".into(), f64::INFINITY),
        0 => ("-inf".into(), f64::NEG_INFINITY),
        _ => (score_of(n).to_string(), score_of(n) as f64),
    }
}

fn add_cmd(kind: &Kind, n: &Bytes, ty: u8) -> Vec<Bytes> {
    let b = |s: &str| s.as_bytes().to_vec();
    match kind {
        Kind::Hash => vec![b("HSET"), COLL.to_vec(), n.clone(), value_of(n)],
        Kind::Set => vec![b("SADD"), COLL.to_vec(), n.clone()],
        Kind::ZSet => vec![b("ZADD"), COLL.to_vec(), score_text(n).0.into_bytes(), n.clone()],
        Kind::Keys => match ty % 6 {
            0 => vec![b("SET"), n.clone(), b("v")],
            1 => vec![b("RPUSH"), n.clone(), b("v")],
            2 => vec![b("SADD"), n.clone(), b("v")],
            3 => vec![b("HSET"), n.clone(), b("f"), b("v")],
            4 => vec![b("ZADD"), n.clone(), b("1"), b("v")],
            _ => vec![b("XADD"), n.clone(), b("1-1"), b("f"), b("v")],
        },
    }
}

fn del_cmd(kind: &Kind, n: &Bytes) -> Vec<Bytes> {
    let b = |s: &str| s.as_bytes().to_vec();
    match kind {
        Kind::Hash => vec![b("HDEL"), COLL.to_vec(), n.clone()],
        Kind::Set => vec![b("SREM"), COLL.to_vec(), n.clone()],
        Kind::ZSet => vec![b("ZREM"), COLL.to_vec(), n.clone()],
        Kind::Keys => vec![b("DEL"), n.clone()],
    }
}

fn pipeline(c: &mut Client, cmds: &[Vec<Bytes>]) -> Result<(), String> {
    for chunk in cmds.chunks(200) {
        let mut w = Vec::new();
        for cmd in chunk {
            w.extend(encode_cmd(cmd));
        }
        c.send_raw(&w).map_err(|e| e.to_string())?;
        for cmd in chunk {
            match c.reply() {
                Reply::Frame(f) if !f.is_error() => {}
                other => return Err(format!("setup command {} -> {:?}", crate::model::show_cmd(cmd), other)),
            }
        }
    }
    Ok(())
}

fn run_case(server: &mut Server, cs: &Case) -> CaseResult {
    if !server.alive() {
        match Server::start(ServerOpts::default()) {
            Ok(s) => *server = s,
            Err(e) => return CaseResult::infra(e),
        }
    }
    let mut c = match crate::runner::reset_server(server) {
        Ok(c) => c,
        Err(e) => return CaseResult::infra(e),
    };
    // the empty key name is refused by some commands (known finding K01): not part of this property
    let usable = |n: &Bytes| !(cs.kind == Kind::Keys && (n.is_empty() || n == COLL));
    let mut setup = Vec::new();
    for (n, t) in cs.stable.iter().chain(cs.volatile_initial.iter()) {
        if usable(n) {
            setup.push(add_cmd(&cs.kind, n, *t));
        }
    }
    if let Err(e) = pipeline(&mut c, &setup) {
        return CaseResult::infra(e);
    }
    // some stable string keys have a history: they once had a short TTL that a plain SET removed;
    // the iteration starts after that old deadline (an element "present throughout" is present
    // whatever deadline it used to have)
    if cs.kind == Kind::Keys && cs.stable.len() % 5 == 0 {
        let mut again = Vec::new();
        for (n, t) in cs.stable.iter().filter(|(n, t)| usable(n) && t % 6 == 0).take(6) {
            again.push(vec![b"SET".to_vec(), n.clone(), b"v".to_vec(), b"PX".to_vec(), b"40".to_vec()]);
            again.push(add_cmd(&cs.kind, n, *t));
        }
        if !again.is_empty() {
            if let Err(e) = pipeline(&mut c, &again) {
                return CaseResult::infra(e);
            }
            std::thread::sleep(std::time::Duration::from_millis(60));
        }
    }
    let passes = |n: &Bytes, t: u8| cs.pattern.as_ref().map_or(true, |p| glob_match(p, n)) && cs.type_filter.map_or(true, |f| f % 6 == t % 6);
    let stable: BTreeMap<Bytes, u8> = cs.stable.iter().filter(|(n, _)| usable(n)).cloned().collect();
    let mut ever: BTreeMap<Bytes, u8> = stable.clone();
    let mut present: BTreeSet<Bytes> = BTreeSet::new();
    for (n, t) in &cs.volatile_initial {
        if usable(n) {
            ever.insert(n.clone(), *t);
            present.insert(n.clone());
        }
    }
    let mut returned: BTreeSet<Bytes> = BTreeSet::new();
    let mut cursor: Bytes = b"0".to_vec();
    let mut calls = 0u64;
    let mut adds = 0u64;
    let mut dels = 0u64;
    let mut calls_since_quiet = 0u64;
    let mut trace: Vec<Value> = Vec::new();
    let mut labels: BTreeSet<&'static str> = BTreeSet::new();
    let eff_count = cs.count.unwrap_or(10).clamp(1, 1000);
    let fail = |what: String, sig: &str, labels: &BTreeSet<&'static str>, trace: Vec<Value>| CaseResult { verdict: Verdict::Fail { what, sig: sig.to_string() }, labels: labels.iter().map(|s| s.to_string()).collect(), nontrivial: true, excluded: vec![], trace: Some(Value::Array(trace)) };
    loop {
        let mut cmd: Vec<Bytes> = match cs.kind {
            Kind::Keys => vec![b"SCAN".to_vec(), cursor.clone()],
            Kind::Hash => vec![b"HSCAN".to_vec(), COLL.to_vec(), cursor.clone()],
            Kind::Set => vec![b"SSCAN".to_vec(), COLL.to_vec(), cursor.clone()],
            Kind::ZSet => vec![b"ZSCAN".to_vec(), COLL.to_vec(), cursor.clone()],
        };
        let mut opt_match: Vec<Bytes> = Vec::new();
        if let Some(p) = &cs.pattern {
            opt_match.push(b"MATCH".to_vec());
            opt_match.push(p.clone());
        }
        let mut opt_count: Vec<Bytes> = Vec::new();
        if let Some(n) = cs.count {
            opt_count.push(b"COUNT".to_vec());
            opt_count.push(n.to_string().into_bytes());
        }
        if cs.count_first {
            cmd.extend(opt_count);
            cmd.extend(opt_match);
        } else {
            cmd.extend(opt_match);
            cmd.extend(opt_count);
        }
        if cs.novalues {
            cmd.push(b"NOVALUES".to_vec());
        }
        if let Some(t) = cs.type_filter {
            cmd.push(b"TYPE".to_vec());
            cmd.push(TYPES[t as usize % 6].as_bytes().to_vec());
        }
        let r = c.cmd(&cmd);
        calls += 1;
        let (next, items) = match &r {
            Reply::Frame(Frame::Array(v)) if v.len() == 2 => match (&v[0], &v[1]) {
                (Frame::Bulk(cur), Frame::Array(items)) => (cur.clone(), items.clone()),
                _ => return fail(format!("{} -> {:?} (expected [cursor, [elements]])", crate::model::show_cmd(&cmd), r), "reply-shape", &labels, trace),
            },
            Reply::Closed | Reply::Timeout => {
                if !server.alive() {
                    return fail(format!("{} ended the server process ({})", crate::model::show_cmd(&cmd), server.panic_signature().unwrap_or_default()), "server-died", &labels, trace);
                }
                return CaseResult::infra(format!("{} -> {:?}", crate::model::show_cmd(&cmd), r));
            }
            _ => return fail(format!("{} -> {:?} (expected [cursor, [elements]])", crate::model::show_cmd(&cmd), r), "reply-shape", &labels, trace),
        };
        if trace.len() < 30 {
            trace.push(json!({"call": crate::model::show_cmd(&cmd).chars().take(120).collect::<String>(), "next_cursor": show_bytes(&next), "returned": items.len()}));
        }
        // decode elements
        let step = if (cs.kind == Kind::Hash && !cs.novalues) || cs.kind == Kind::ZSet { 2 } else { 1 };
        if items.len() % step != 0 {
            return fail(format!("{}: {} items, not a whole number of pairs", crate::model::show_cmd(&cmd), items.len()), "reply-shape", &labels, trace);
        }
        for ch in items.chunks(step) {
            let Frame::Bulk(n) = &ch[0] else { return fail(format!("element {:?} is not a bulk string", ch[0]), "reply-shape", &labels, trace) };
            match ever.get(n) {
                None => return fail(format!("{} returned {} which never existed", crate::model::show_cmd(&cmd), show_bytes(n)), "invented-element", &labels, trace),
                Some(t) => {
                    if !passes(n, *t) {
                        return fail(format!("{} returned {} (type {}) which does not satisfy the filters", crate::model::show_cmd(&cmd), show_bytes(n), TYPES[*t as usize % 6]), "filter-violated", &labels, trace);
                    }
                }
            }
            if step == 2 {
                let ok = match (&cs.kind, &ch[1]) {
                    (Kind::Hash, Frame::Bulk(v)) => *v == value_of(n),
                    (Kind::ZSet, Frame::Bulk(v)) => std::str::from_utf8(v).ok().and_then(|s| s.parse::<f64>().ok()) == Some(score_text(n).1),
                    _ => false,
                };
                if !ok {
                    return fail(format!("{} returned {} with {:?}, expected {}", crate::model::show_cmd(&cmd), show_bytes(n), ch[1], if cs.kind == Kind::Hash { show_bytes(&value_of(n)) } else { score_text(n).0 }), "wrong-value", &labels, trace);
                }
            }
            returned.insert(n.clone());
        }
        if next == b"0" {
            break;
        }
        if std::str::from_utf8(&next).ok().and_then(|s| s.parse::<u64>().ok()).is_none() {
            return fail(format!("{} returned the cursor {} which is not an unsigned integer", crate::model::show_cmd(&cmd), show_bytes(&next)), "reply-shape", &labels, trace);
        }
        cursor = next;
        // modifications of *other* elements between calls
        let batch_ix = (calls - 1) as usize;
        if let Some(batch) = cs.mods.get(batch_ix) {
            let mut cmds = Vec::new();
            for (add, ix) in batch {
                let Some((n, t)) = cs.pool.get(*ix) else { continue };
                if !usable(n) {
                    continue;
                }
                if *add {
                    if present.insert(n.clone()) {
                        adds += 1;
                    }
                    ever.insert(n.clone(), *t);
                    cmds.push(add_cmd(&cs.kind, n, *t));
                } else {
                    if present.remove(n) {
                        dels += 1;
                    }
                    cmds.push(del_cmd(&cs.kind, n));
                }
            }
            if let Err(e) = pipeline(&mut c, &cmds) {
                return CaseResult::infra(e);
            }
        } else {
            calls_since_quiet += 1;
            let bound = (stable.len() + present.len()) as u64 / eff_count + 12;
            if calls_since_quiet > bound {
                return fail(
                    format!("the iteration does not terminate: {} calls after the last modification (collection of {} elements, COUNT {:?}: at most {} expected), cursor now {}", calls_since_quiet, stable.len() + present.len(), cs.count, bound, show_bytes(&cursor)),
                    "no-termination",
                    &labels,
                    trace,
                );
            }
        }
    }
    // (1) everything stable that passes the filters was returned
    let missing: Vec<&Bytes> = stable.iter().filter(|(n, t)| passes(n, **t) && !returned.contains(*n)).map(|(n, _)| n).collect();
    if calls >= 3 {
        labels.insert("iteration-of-3-or-more-calls");
    }
    if adds > 0 && dels > 0 {
        labels.insert("additions-and-deletions-between-calls");
    }
    if cs.pattern.is_some() {
        labels.insert("with-MATCH");
    }
    if cs.type_filter.is_some() {
        labels.insert("with-TYPE");
    }
    if cs.novalues {
        labels.insert("HSCAN-NOVALUES");
    }
    labels.insert(match cs.kind {
        Kind::Keys => "SCAN",
        Kind::Hash => "HSCAN",
        Kind::Set => "SSCAN",
        Kind::ZSet => "ZSCAN",
    });
    if !missing.is_empty() {
        return fail(
            format!(
                "a full {:?} iteration ({} calls, COUNT {:?}, MATCH {:?}, TYPE {:?}; {} additions and {} deletions of other elements between calls) never returned {} of the {} elements that existed from the first call to the last and satisfy the filters, e.g. {}",
                cs.kind,
                calls,
                cs.count,
                cs.pattern.as_ref().map(|p| show_bytes(p)),
                cs.type_filter.map(|t| TYPES[t as usize % 6]),
                adds,
                dels,
                missing.len(),
                stable.iter().filter(|(n, t)| passes(n, **t)).count(),
                show_bytes(missing[0])
            ),
            "stable-element-missed",
            &labels,
            trace,
        );
    }
    let nontrivial = calls >= 3 && adds > 0 && dels > 0;
    CaseResult { verdict: Verdict::Pass, labels: labels.iter().map(|s| s.to_string()).collect(), nontrivial, excluded: vec![], trace: Some(Value::Array(trace)) }
}

fn named2j(v: &[(Bytes, u8)]) -> Value {
    Value::Array(v.iter().map(|(n, t)| json!([crate::driver::b2j(n), t])).collect())
}

fn j2named(v: Option<&Value>) -> Vec<(Bytes, u8)> {
    v.and_then(|a| a.as_array()).map(|a| a.iter().filter_map(|e| Some((crate::driver::j2b(e.get(0)?), e.get(1)?.as_u64()? as u8))).collect()).unwrap_or_default()
}

fn case2j(c: &Case) -> Value {
    json!({
        "kind": format!("{:?}", c.kind),
        "stable": named2j(&c.stable),
        "volatile_initial": named2j(&c.volatile_initial),
        "pool": named2j(&c.pool),
        "count": c.count,
        "pattern": c.pattern.as_ref().map(|p| crate::driver::b2j(p)),
        "type_filter": c.type_filter,
        "novalues": c.novalues,
        "count_first": c.count_first,
        "mods": c.mods.iter().map(|b| b.iter().map(|(a, i)| json!([a, i])).collect::<Vec<_>>()).collect::<Vec<_>>(),
    })
}

fn j2case(v: &Value) -> Case {
    Case {
        kind: match v.get("kind").and_then(|k| k.as_str()).unwrap_or("Keys") {
            "Hash" => Kind::Hash,
            "Set" => Kind::Set,
            "ZSet" => Kind::ZSet,
            _ => Kind::Keys,
        },
        stable: j2named(v.get("stable")),
        volatile_initial: j2named(v.get("volatile_initial")),
        pool: j2named(v.get("pool")),
        count: v.get("count").and_then(|c| c.as_u64()),
        pattern: v.get("pattern").filter(|p| !p.is_null()).map(crate::driver::j2b),
        type_filter: v.get("type_filter").and_then(|c| c.as_u64()).map(|t| t as u8),
        novalues: v.get("novalues").and_then(|c| c.as_bool()).unwrap_or(false),
        count_first: v.get("count_first").and_then(|c| c.as_bool()).unwrap_or(false),
        mods: v.get("mods").and_then(|m| m.as_array()).map(|a| a.iter().map(|b| b.as_array().map(|b| b.iter().filter_map(|e| Some((e.get(0)?.as_bool()?, e.get(1)?.as_u64()? as usize))).collect()).unwrap_or_default()).collect()).unwrap_or_default(),
    }
}

pub fn run(tier: Tier, seed: u64, replay: Option<Value>) -> i32 {
    let ev = Mutex::new(Evidence::new(
        "C19",
        tier,
        seed,
        "exploration",
        "one case = a collection (the key space of a database with keys of all six types, or the fields/members of one hash, set or sorted set) of 0..400 stable elements plus 0..80 volatile ones (names with shared prefixes, glob metacharacters, binary, 1..60 bytes), one full cursor iteration from 0 to 0 with generated COUNT (absent, 1, 2, 3, 7, 10, 11, 100, 1000, 10^6), optional MATCH (12 fixed globs + the C01 glob grammar), TYPE, HSCAN NOVALUES, options in either order, and after each call a generated batch of 0..11 additions and deletions of volatile elements (never of the stable set). Oracle: every stable element that satisfies the filters is returned at least once; every returned element existed at some point and satisfies MATCH (model glob on bytes) and TYPE; HSCAN values and ZSCAN scores (one member in eight at +-inf) are the element's own; some stable keys once had a short TTL that a plain SET removed and that has passed; the cursor is an unsigned integer; once modifications stop the iteration ends within n/COUNT + 12 calls. Non-trivial = an iteration of >= 3 calls with >= 1 addition and >= 1 deletion of other elements between calls; distinct by hash of the case",
    ));
    let mk = |_: usize| Server::start(ServerOpts::default());
    if let Some(r) = replay {
        let c = r.get("case").unwrap_or(&r);
        let mut server = match mk(0) {
            Ok(s) => s,
            Err(e) => {
                eprintln!("infrastructure: {}", e);
                return 2;
            }
        };
        let res = run_case(&mut server, &j2case(c));
        crate::outln!("{}", serde_json::to_string_pretty(res.trace.as_ref().unwrap_or(&Value::Null)).unwrap());
        return match res.verdict {
            Verdict::Pass => {
                crate::outln!("replay: PASS");
                0
            }
            Verdict::Fail { what, sig } => {
                crate::outln!("replay: FAIL [{}] {}", sig, what);
                1
            }
            Verdict::Infra(m) => {
                crate::outln!("replay: inconclusive {}", m);
                2
            }
        };
    }
    let cfg = LoopCfg { cases: tier.pick(10000, 150000), workers: 12, max_shrink_execs: 300, max_violations: std::env::var("FVH_MAX_VIOL").ok().and_then(|s| s.parse().ok()).unwrap_or(8) };
    let max_n = tier.pick(400, 1500);
    crate::driver::run_cases(&ev, &cfg, || case(max_n), mk, |s, c: &Case| run_case(s, c), case2j);
    let e = ev.lock().unwrap();
    let _ = e.write();
    e.exit_code()
}
