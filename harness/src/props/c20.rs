//! C20 — the RESP codec round-trips and is independent of how bytes are chunked.
//! In-process against `ferrous::protocol`.
//!
//! A. round-trip: generated frame trees -> serialize -> parse gives the same tree and consumes
//!    exactly the bytes; through `RespParser` a second parse() asks for more data.
//! B. chunking independence: streams of 1..8 serialised frames with optional damage are fed
//!    whole and in generated chunkings (all 2^(n-1) cut vectors when n <= 12); the observation
//!    (frames in order, terminal state) must be identical.
//! C. totality: arbitrary bytes over the protocol alphabet and hostile declared lengths under
//!    catch_unwind and the counting allocator: frame / need-more / error, never a panic, and no
//!    single allocation larger than 64 KiB + 64 x bytes received. Deep nesting runs in a child
//!    process (a stack overflow cannot be caught in-process).

use crate::driver::{b2j, hash_debug, seeded_runner, Evidence, Tier};
use ferrous::protocol::parser::parse_resp_frame;
use ferrous::protocol::serializer::serialize_to_vec;
use ferrous::protocol::{RespFrame, RespParser};
use proptest::prelude::*;
use proptest::strategy::ValueTree;
use serde_json::{json, Value};
use std::panic::{catch_unwind, AssertUnwindSafe};
use std::sync::Arc;

fn leaf() -> BoxedStrategy<RespFrame> {
    let line = proptest::collection::vec(any::<u8>().prop_filter_map("no CR/LF", |b| if b == b'\r' || b == b'\n' { None } else { Some(b) }), 0..20);
    let bulk = prop_oneof![
        6 => proptest::collection::vec(any::<u8>(), 0..24),
        1 => Just(b"\r\n".to_vec()),
        1 => Just(b"PING".to_vec()),
        1 => Just(b"$-1\r\n*1\r\n".to_vec()),
        1 => (any::<u8>(), prop_oneof![Just(4096usize), Just(65536)]).prop_map(|(b, n)| vec![b; n]),
    ];
    let double = prop_oneof![
        4 => any::<f64>(),
        1 => proptest::sample::select(vec![0.0, -0.0, f64::INFINITY, f64::NEG_INFINITY, f64::NAN, f64::MIN_POSITIVE, 5e-324, f64::MAX, 0.1, 1e21, 1e-7, 123456789.125]),
    ];
    prop_oneof![
        3 => line.clone().prop_map(|b| RespFrame::SimpleString(Arc::new(b))),
        2 => line.prop_map(|b| RespFrame::Error(Arc::new(b))),
        3 => prop_oneof![any::<i64>(), proptest::sample::select(vec![0i64, -1, 1, i64::MAX, i64::MIN])].prop_map(RespFrame::Integer),
        5 => bulk.prop_map(|b| RespFrame::BulkString(Some(Arc::new(b)))),
        1 => Just(RespFrame::BulkString(None)),
        1 => Just(RespFrame::Array(None)),
        1 => Just(RespFrame::Null),
        1 => any::<bool>().prop_map(RespFrame::Boolean),
        2 => double.prop_map(RespFrame::Double),
    ]
    .boxed()
}

pub fn frame_tree() -> BoxedStrategy<RespFrame> {
    leaf()
        .prop_recursive(6, 64, 8, |inner| {
            prop_oneof![
                3 => proptest::collection::vec(inner.clone(), 0..8).prop_map(|v| RespFrame::Array(Some(v))),
                1 => proptest::collection::vec(inner.clone(), 0..6).prop_map(RespFrame::Set),
                1 => proptest::collection::vec((inner.clone(), inner), 0..4).prop_map(RespFrame::Map),
            ]
        })
        .boxed()
}

/// NaN-aware structural equality.
fn frame_eq(a: &RespFrame, b: &RespFrame) -> bool {
    use RespFrame::*;
    match (a, b) {
        (Double(x), Double(y)) => (x.is_nan() && y.is_nan()) || x.to_bits() == y.to_bits() || (x == y && *x != 0.0),
        (Array(Some(x)), Array(Some(y))) | (Set(x), Set(y)) => x.len() == y.len() && x.iter().zip(y).all(|(p, q)| frame_eq(p, q)),
        (Map(x), Map(y)) => x.len() == y.len() && x.iter().zip(y).all(|(p, q)| frame_eq(&p.0, &q.0) && frame_eq(&p.1, &q.1)),
        _ => a == b,
    }
}

fn has_aggregate(f: &RespFrame) -> bool {
    matches!(f, RespFrame::Array(Some(_)) | RespFrame::Set(_) | RespFrame::Map(_))
}

fn has_special_leaf(f: &RespFrame) -> bool {
    match f {
        RespFrame::BulkString(None) | RespFrame::Array(None) | RespFrame::Null => true,
        RespFrame::BulkString(Some(b)) => b.is_empty() || b.iter().any(|c| *c >= 0x80 || *c < 0x20),
        RespFrame::SimpleString(b) | RespFrame::Error(b) => b.is_empty() || b.iter().any(|c| *c >= 0x80 || *c < 0x20),
        RespFrame::Array(Some(v)) | RespFrame::Set(v) => v.is_empty() || v.iter().any(has_special_leaf),
        RespFrame::Map(v) => v.is_empty() || v.iter().any(|(k, x)| has_special_leaf(k) || has_special_leaf(x)),
        _ => false,
    }
}

fn short(f: &RespFrame) -> String {
    let s = format!("{:?}", f);
    if s.len() > 600 {
        format!("{}...", &s[..600])
    } else {
        s
    }
}

// ---------- A: round trip ----------

fn roundtrip_case(f: &RespFrame) -> Result<(), String> {
    let bytes = serialize_to_vec(f).map_err(|e| format!("serialize failed: {}", e))?;
    match catch_unwind(AssertUnwindSafe(|| parse_resp_frame(&bytes))) {
        Err(_) => return Err("parse_resp_frame panicked on serializer output".into()),
        Ok(Err(e)) => return Err(format!("parse_resp_frame refused serializer output: {}", e)),
        Ok(Ok(None)) => return Err("parse_resp_frame asks for more data on complete serializer output".into()),
        Ok(Ok(Some((g, consumed)))) => {
            if !frame_eq(f, &g) {
                return Err(format!("round trip changed the value: got {}", short(&g)));
            }
            if consumed != bytes.len() {
                return Err(format!("consumed {} of {} bytes", consumed, bytes.len()));
            }
        }
    }
    let mut p = RespParser::new();
    p.feed(&bytes);
    match catch_unwind(AssertUnwindSafe(|| (p.parse(), p.parse()))) {
        Err(_) => Err("RespParser panicked on serializer output".into()),
        Ok((Ok(Some(g)), Ok(None))) => {
            if frame_eq(f, &g) {
                Ok(())
            } else {
                Err(format!("RespParser round trip changed the value: got {}", short(&g)))
            }
        }
        Ok((a, b)) => Err(format!("RespParser: first parse {:?}, second parse {:?} (expected one frame, then need-more)", a.map(|o| o.map(|f| short(&f))), b.map(|o| o.map(|f| short(&f))))),
    }
}

// ---------- B: chunking independence ----------

#[derive(Debug, Clone, PartialEq)]
enum Terminal {
    NeedMore,
    Error,
}

/// Feed `stream` cut at `cuts` (sorted positions), draining parse() after each feed.
fn observe(stream: &[u8], cuts: &[usize]) -> Result<(Vec<RespFrame>, Terminal), String> {
    let mut p = RespParser::new();
    let mut frames = Vec::new();
    let mut errored = false;
    let mut prev = 0;
    let mut bounds: Vec<usize> = cuts.to_vec();
    bounds.push(stream.len());
    for b in bounds {
        if b < prev || b > stream.len() {
            continue;
        }
        p.feed(&stream[prev..b]);
        prev = b;
        if errored {
            continue;
        }
        let mut guard = 0;
        loop {
            guard += 1;
            if guard > 100_000 {
                return Err("parse() keeps producing frames without consuming input".into());
            }
            match catch_unwind(AssertUnwindSafe(|| p.parse())) {
                Err(_) => return Err("RespParser::parse panicked".into()),
                Ok(Ok(Some(f))) => frames.push(f),
                Ok(Ok(None)) => break,
                Ok(Err(_)) => {
                    errored = true;
                    break;
                }
            }
        }
    }
    Ok((frames, if errored { Terminal::Error } else { Terminal::NeedMore }))
}

fn obs_eq(a: &(Vec<RespFrame>, Terminal), b: &(Vec<RespFrame>, Terminal)) -> bool {
    a.1 == b.1 && a.0.len() == b.0.len() && a.0.iter().zip(&b.0).all(|(x, y)| frame_eq(x, y))
}

#[derive(Debug, Clone)]
struct StreamCase {
    stream: Vec<u8>,
    cuts: Vec<Vec<usize>>,
    nframes: usize,
}

fn small_frame() -> BoxedStrategy<RespFrame> {
    // short frames so that exhaustive chunking (n <= 12 bytes) is reached often
    prop_oneof![
        Just(RespFrame::SimpleString(Arc::new(b"OK".to_vec()))),
        Just(RespFrame::Integer(1)),
        Just(RespFrame::BulkString(None)),
        Just(RespFrame::Null),
        Just(RespFrame::Boolean(true)),
        Just(RespFrame::BulkString(Some(Arc::new(b"a".to_vec())))),
        Just(RespFrame::BulkString(Some(Arc::new(Vec::new())))),
        Just(RespFrame::Array(Some(vec![]))),
        Just(RespFrame::Array(Some(vec![RespFrame::BulkString(Some(Arc::new(b"PING".to_vec())))]))),
        Just(RespFrame::Error(Arc::new(b"E".to_vec()))),
    ]
    .boxed()
}

fn stream_case() -> BoxedStrategy<StreamCase> {
    let alphabet: Vec<u8> = b"+-:$*_#,%~0123456789\r\nPING tf.".to_vec();
    let frames = prop_oneof![
        3 => proptest::collection::vec(small_frame(), 1..4),
        3 => proptest::collection::vec(frame_tree(), 1..8),
    ];
    let damage = prop_oneof![
        4 => Just(0u8), // none
        2 => Just(1u8), // truncate
        2 => Just(2u8), // overwrite a byte with an alphabet byte
        2 => Just(3u8), // insert alphabet bytes
        1 => Just(4u8), // raw inline PING somewhere
    ];
    (frames, damage, any::<u16>(), proptest::collection::vec(proptest::sample::select(alphabet), 1..6), proptest::collection::vec(any::<u16>(), 0..6), any::<bool>())
        .prop_map(|(frames, damage, pos, ins, cutseeds, prefix_ping)| {
            let mut stream = Vec::new();
            if prefix_ping && damage == 4 {
                stream.extend_from_slice(b"PING\r\n");
            }
            for f in &frames {
                stream.extend_from_slice(&serialize_to_vec(f).unwrap());
            }
            let at = |len: usize| if len == 0 { 0 } else { (pos as usize * len) >> 16 };
            match damage {
                1 => {
                    let n = at(stream.len());
                    stream.truncate(n);
                }
                2 => {
                    if !stream.is_empty() {
                        let i = at(stream.len());
                        stream[i] = ins[0];
                    }
                }
                3 => {
                    let i = at(stream.len() + 1);
                    let tail = stream.split_off(i);
                    stream.extend_from_slice(&ins);
                    stream.extend_from_slice(&tail);
                }
                4 => {
                    if !prefix_ping {
                        stream.extend_from_slice(b"PING\r\n");
                    }
                }
                _ => {}
            }
            let n = stream.len();
            let mut cuts: Vec<Vec<usize>> = Vec::new();
            if n >= 2 {
                if n <= 12 {
                    // exhaustive: every subset of the n-1 interior cut positions
                    for mask in 1u32..(1u32 << (n - 1)) {
                        cuts.push((1..n).filter(|i| mask & (1 << (i - 1)) != 0).collect());
                    }
                } else {
                    // every single cut (bounded), the all-single-byte split, generated cut vectors
                    let step = std::cmp::max(1, n / 300);
                    let mut i = 1;
                    while i < n {
                        cuts.push(vec![i]);
                        i += step;
                    }
                    if n <= 4096 {
                        cuts.push((1..n).collect());
                    }
                    let mut g: Vec<usize> = cutseeds.iter().map(|c| 1 + ((*c as usize * (n - 1)) >> 16)).collect();
                    g.sort();
                    g.dedup();
                    if !g.is_empty() {
                        cuts.push(g);
                    }
                }
            }
            StreamCase { stream, cuts, nframes: frames.len() }
        })
        .boxed()
}

fn chunking_case(c: &StreamCase) -> Result<u64, String> {
    let whole = observe(&c.stream, &[])?;
    let mut n = 0;
    for cuts in &c.cuts {
        let o = observe(&c.stream, cuts)?;
        n += 1;
        if !obs_eq(&whole, &o) {
            return Err(format!(
                "chunking {:?} of {} bytes observed {} frames then {:?}; fed whole: {} frames then {:?}",
                if cuts.len() > 12 { &cuts[..12] } else { &cuts[..] },
                c.stream.len(),
                o.0.len(),
                o.1,
                whole.0.len(),
                whole.1
            ));
        }
    }
    Ok(n)
}

// ---------- C: totality and allocation bound ----------

fn hostile_bytes() -> BoxedStrategy<Vec<u8>> {
    let alphabet: Vec<u8> = b"+-:$*_#,%~0123456789\r\nPING tf.e".to_vec();
    let big = proptest::sample::select(vec![
        "10000", "100000", "1000000", "10000000", "4294967295", "4294967296", "1099511627776", "9223372036854775807", "9223372036854775808", "18446744073709551615", "-2", "-9223372036854775808", "+5", "007",
    ]);
    let header = (proptest::sample::select(vec!['*', '%', '~', '$']), big, proptest::collection::vec(small_frame(), 0..8)).prop_map(|(t, n, elems)| {
        let mut v = format!("{}{}\r\n", t, n).into_bytes();
        for e in elems {
            v.extend_from_slice(&serialize_to_vec(&e).unwrap());
        }
        v
    });
    prop_oneof![
        4 => proptest::collection::vec(proptest::sample::select(alphabet), 0..64),
        3 => header,
        2 => proptest::collection::vec(any::<u8>(), 0..64),
        // nested headers without bodies
        1 => (prop_oneof![4 => 1usize..200, 1 => proptest::sample::select(vec![1000usize, 10_000, 100_000])], proptest::sample::select(vec!["*1\r\n", "*2\r\n", "%1\r\n", "~1\r\n"])).prop_map(|(d, h)| h.repeat(d).into_bytes()),
    ]
    .boxed()
}

pub fn totality_case(bytes: &[u8]) -> Result<(), String> {
    let (r, max_req, _total) = crate::alloc::measure(|| {
        catch_unwind(AssertUnwindSafe(|| {
            let mut p = RespParser::new();
            p.feed(bytes);
            let mut n = 0;
            loop {
                match p.parse() {
                    Ok(Some(_)) => {
                        n += 1;
                        if n > 100_000 {
                            return Err("parse() keeps producing frames".to_string());
                        }
                    }
                    Ok(None) | Err(_) => return Ok(()),
                }
            }
        }))
    });
    match r {
        Err(_) => return Err("RespParser panicked".into()),
        Ok(Err(e)) => return Err(e),
        Ok(Ok(())) => {}
    }
    let bound = 64 * 1024 + 64 * bytes.len();
    if max_req > bound {
        return Err(format!("single allocation of {} bytes for {} received bytes (bound {})", max_req, bytes.len(), bound));
    }
    Ok(())
}

/// Deep nesting in a child process: a stack overflow aborts the process.
pub fn nest_child(depth: usize) -> ! {
    let bytes = "*1\r\n".repeat(depth).into_bytes();
    let mut p = RespParser::new();
    p.feed(&bytes);
    let r = p.parse();
    crate::outln!("nest {} -> {}", depth, if r.is_ok() { "ok" } else { "err" });
    std::process::exit(0);
}

fn nest_probe(depth: usize) -> Result<(), String> {
    let exe = crate::own_exe();
    let out = std::process::Command::new(exe).arg("c20-nest").arg(depth.to_string()).output().map_err(|e| e.to_string())?;
    if out.status.success() {
        Ok(())
    } else {
        Err(format!("parsing {} nested array headers ended the process ({:?}): {}", depth, out.status, String::from_utf8_lossy(&out.stderr).lines().last().unwrap_or("")))
    }
}

pub const K_NEST: &str = "K04-parser-unbounded-recursion";

pub fn run(tier: Tier, seed: u64, replay: Option<Value>) -> i32 {
    let mut ev = Evidence::new(
        "C20",
        tier,
        seed,
        "exploration",
        "A: generated frame trees (every variant except the internal NoResponse, depth <= 6) serialised and parsed back; B: streams of 1..8 serialised frames with optional damage fed whole and in generated chunkings (exhaustive cut vectors for <= 12 bytes); C: arbitrary bytes over the protocol alphabet and hostile declared lengths under catch_unwind and a counting allocator. Non-trivial: A = tree with an aggregate and a null/empty/binary leaf; B = >= 2 frames and a cut inside a frame; C = first byte is a RESP type byte. Distinct by hash of the generated value.",
    );
    ev.assumptions.push("simple strings and errors are generated without CR/LF bytes (RESP cannot carry them)".into());
    ev.assumptions.push("allocation bound: largest single request <= 64 KiB + 64 x bytes received".into());

    if let Some(r) = replay {
        let case = r.get("case").unwrap_or(&r);
        let kind = case.get("kind").and_then(|k| k.as_str()).unwrap_or("");
        let bytes = crate::driver::j2b(case.get("bytes").unwrap_or(&Value::Null));
        let res = match kind {
            "roundtrip" => match parse_resp_frame(&bytes) {
                Ok(Some((f, _))) => roundtrip_case(&f),
                other => Err(format!("replay bytes do not parse: {:?}", other.map(|o| o.map(|x| short(&x.0))))),
            },
            "chunking" => {
                let cuts: Vec<usize> = case.get("cuts").and_then(|c| c.as_array()).map(|a| a.iter().filter_map(|x| x.as_u64().map(|v| v as usize)).collect()).unwrap_or_default();
                chunking_case(&StreamCase { stream: bytes, cuts: vec![cuts], nframes: 0 }).map(|_| ())
            }
            "nest" => nest_probe(case.get("depth").and_then(|d| d.as_u64()).unwrap_or(100000) as usize),
            _ => match crate::childworker::ChildWorker::start("c20-worker") {
                Ok(mut cw) => match cw.run(&bytes) {
                    crate::childworker::ChildResult::Ok => Ok(()),
                    crate::childworker::ChildResult::Err(e) => Err(e),
                    crate::childworker::ChildResult::Died(st) => Err(format!("the process died while parsing ({})", st)),
                },
                Err(e) => Err(e),
            },
        };
        return match res {
            Ok(()) => {
                crate::outln!("replay: PASS");
                0
            }
            Err(e) => {
                crate::outln!("replay: FAIL {}", e);
                1
            }
        };
    }

    // panics inside the code under test are caught and reported as violations; keep stderr readable
    std::panic::set_hook(Box::new(|_| {}));
    let findings = crate::findings::Findings::load();
    let (na, nb, nc) = tier.pick((20_000u64, 6_000u64, 60_000u64), (400_000, 120_000, 1_200_000));

    // A
    let mut runner = seeded_runner(seed, 1);
    let strat = frame_tree();
    let mut viol = 0;
    for _ in 0..na {
        let mut tree = strat.new_tree(&mut runner).unwrap();
        let f = tree.current();
        let r = roundtrip_case(&f);
        ev.evaluations += 1;
        ev.count_label("A-roundtrip", 1);
        if has_aggregate(&f) && has_special_leaf(&f) {
            if ev.nontrivial.insert(hash_debug(&f)) && ev.samples.len() < 2 {
                ev.samples.push(json!({"kind": "roundtrip", "frame": short(&f)}));
            }
        }
        if r.is_err() && viol < 5 {
            // shrink
            let mut best = (f.clone(), r.clone().unwrap_err());
            let mut n = 0;
            'o: while n < 500 && tree.simplify() {
                loop {
                    n += 1;
                    let c = tree.current();
                    if let Err(e) = roundtrip_case(&c) {
                        best = (c, e);
                        break;
                    }
                    if n >= 500 || !tree.complicate() {
                        break 'o;
                    }
                }
            }
            viol += 1;
            let bytes = serialize_to_vec(&best.0).unwrap_or_default();
            ev.violation(&format!("{} for frame {}", best.1, short(&best.0)), "roundtrip", json!({"kind": "roundtrip", "bytes": b2j(&bytes), "frame": short(&best.0)}));
        }
    }

    ev.extra.insert("wall_s_A".into(), json!(ev.started.elapsed().as_secs_f64()));
    // B
    let mut runner = seeded_runner(seed, 2);
    let strat = stream_case();
    let mut chunkings = 0u64;
    let mut exhaustive_streams = 0u64;
    let mut viol_b = 0;
    // known finding: raw-PING shortcut is chunk dependent (probe)
    for _ in 0..nb {
        let mut tree = strat.new_tree(&mut runner).unwrap();
        let c = tree.current();
        ev.evaluations += 1;
        ev.count_label("B-stream", 1);
        if c.stream.len() >= 2 && c.stream.len() <= 12 {
            exhaustive_streams += 1;
        }
        if c.nframes >= 2 && !c.cuts.is_empty() {
            if ev.nontrivial.insert(hash_debug(&c.stream)) && ev.samples.len() < 4 {
                ev.samples.push(json!({"kind": "chunking", "stream": crate::resp::show_bytes(&c.stream), "chunkings": c.cuts.len()}));
            }
        }
        match chunking_case(&c) {
            Ok(n) => chunkings += n,
            Err(_) if viol_b >= 5 => {}
            Err(e0) => {
                let mut best = (c.clone(), e0);
                let mut n = 0;
                'o2: while n < 300 && tree.simplify() {
                    loop {
                        n += 1;
                        let cc = tree.current();
                        if let Err(e) = chunking_case(&cc) {
                            best = (cc, e);
                            break;
                        }
                        if n >= 300 || !tree.complicate() {
                            break 'o2;
                        }
                    }
                }
                viol_b += 1;
                // find the first failing cut vector for the replay file
                let whole = observe(&best.0.stream, &[]);
                let bad = best.0.cuts.iter().find(|cu| match (&whole, observe(&best.0.stream, cu)) {
                    (Ok(w), Ok(o)) => !obs_eq(w, &o),
                    _ => true,
                });
                ev.violation(
                    &format!("{} (stream {})", best.1, crate::resp::show_bytes(&best.0.stream)),
                    "chunking",
                    json!({"kind": "chunking", "bytes": b2j(&best.0.stream), "cuts": bad.cloned().unwrap_or_default()}),
                );
            }
        }
    }
    ev.extra.insert("chunkings_compared".into(), json!(chunkings));
    ev.extra.insert("streams_with_exhaustive_chunking".into(), json!(exhaustive_streams));

    ev.extra.insert("wall_s_AB".into(), json!(ev.started.elapsed().as_secs_f64()));
    // C (in a child process: an allocation failure or a stack overflow aborts, it cannot be caught)
    let mut runner = seeded_runner(seed, 3);
    let strat = hostile_bytes();
    let mut viol_c = 0;
    let mut cw = match crate::childworker::ChildWorker::start("c20-worker") {
        Ok(c) => c,
        Err(e) => {
            eprintln!("infrastructure: cannot start child worker: {}", e);
            return 2;
        }
    };
    let run_c = |cw: &mut crate::childworker::ChildWorker, b: &[u8]| -> Result<(), String> {
        match cw.run(b) {
            crate::childworker::ChildResult::Ok => Ok(()),
            crate::childworker::ChildResult::Err(e) => Err(e),
            crate::childworker::ChildResult::Died(st) => Err(format!("the process died while parsing ({})", st)),
        }
    };
    for _ in 0..nc {
        let mut tree = strat.new_tree(&mut runner).unwrap();
        let b = tree.current();
        ev.evaluations += 1;
        ev.count_label("C-bytes", 1);
        if b.len() > 4000 {
            ev.count_label("C-deep-nesting", 1);
        }
        if b.first().map_or(false, |c| b"+-:$*_#,%~".contains(c)) {
            if ev.nontrivial.insert(hash_debug(&b)) && ev.samples.len() < 6 {
                ev.samples.push(json!({"kind": "bytes", "input": crate::resp::show_bytes(&b)}));
            }
        }
        if let Err(e0) = run_c(&mut cw, &b) {
            if viol_c >= 5 {
                continue;
            }
            let mut best = (b.clone(), e0);
            let mut n = 0;
            'o3: while n < 300 && tree.simplify() {
                loop {
                    n += 1;
                    let cc = tree.current();
                    if let Err(e) = run_c(&mut cw, &cc) {
                        best = (cc, e);
                        break;
                    }
                    if n >= 300 || !tree.complicate() {
                        break 'o3;
                    }
                }
            }
            viol_c += 1;
            ev.violation(&format!("{} on input {}", best.1, crate::resp::show_bytes(&best.0)), "totality", json!({"kind": "bytes", "bytes": b2j(&best.0)}));
        }
    }
    ev.extra.insert("child_worker_restarts".into(), json!(cw.restarts));
    drop(cw);

    // deep nesting, in child processes
    let nest_known = findings.open_for("C20").into_iter().find(|f| f.id == K_NEST);
    for depth in [100usize, 1000, 10_000, 100_000] {
        ev.evaluations += 1;
        ev.count_label("C-nesting", 1);
        if let Err(e) = nest_probe(depth) {
            match &nest_known {
                Some(f) => {
                    ev.known(&f.id, &f.what_fails);
                    break;
                }
                None => ev.violation(&e, "nesting", json!({"kind": "nest", "depth": depth})),
            }
        }
    }
    let _ = ev.write();
    ev.exit_code()
}
