//! Single-client command-history checks against the reference model:
//! C01 (strings / key space), C03 (lists, sets, hashes), C04-B (sorted sets), C15 (streams).

use crate::driver::{CaseResult, Evidence, LoopCfg, Tier};
use crate::findings::{Active, Findings};
use crate::model::{Cmd, World};
use crate::runner::{self, RunOpts, Step, Worker};
use crate::sut::ServerOpts;
use proptest::prelude::*;
use proptest::strategy::BoxedStrategy;
use serde_json::Value;
use std::sync::Mutex;
use std::time::Duration;

pub type Probe = fn(&mut Worker) -> Result<bool, String>;

pub struct HistSpec {
    pub id: &'static str,
    pub rule: &'static str,
    pub cmd: fn() -> BoxedStrategy<Cmd>,
    /// optional whole-history strategy (overrides `cmd`)
    pub history: Option<fn(usize) -> BoxedStrategy<Vec<Step>>>,
    pub max_len: usize,
    pub quick_cases: u64,
    pub thorough_cases: u64,
    pub nontrivial: fn(&World) -> bool,
    /// (finding id, probe returning true when the defect still reproduces)
    pub probes: Vec<(&'static str, Probe)>,
    pub excluder: fn(&Active, &mut World, usize, &Cmd) -> Option<&'static str>,
    /// fixed regression / grid scripts run before the random histories
    pub fixed_cases: fn() -> Vec<Vec<Step>>,
    pub label_floors: Vec<(&'static str, u64)>,
    pub assumptions: Vec<&'static str>,
    /// optional in-process phase run first, accumulating into the same evidence
    pub pre_phase: Option<fn(&mut Evidence, Tier, u64)>,
    /// optional replay handler for pre-phase cases (Some(exit code) if it handled the file)
    pub pre_replay: Option<fn(&Value) -> Option<i32>>,
    pub nconns: usize,
    pub timed: bool,
    pub lenient_scripts: bool,
    pub dump_dbs: Vec<usize>,
    pub dump_after_error: bool,
    pub final_dump: bool,
    pub workers: Option<usize>,
    pub script_uncertain: bool,
    pub max_shrink_execs: u32,
    pub level: &'static str,
}

fn no_cmd() -> BoxedStrategy<Cmd> {
    Just(Vec::new()).boxed()
}

impl Default for HistSpec {
    fn default() -> HistSpec {
        HistSpec {
            id: "",
            rule: "",
            cmd: no_cmd,
            history: None,
            max_len: 40,
            quick_cases: 1000,
            thorough_cases: 10000,
            nontrivial: |_| true,
            probes: vec![],
            excluder: |_, _, _, _| None,
            fixed_cases: Vec::new,
            label_floors: vec![],
            assumptions: vec![],
            pre_phase: None,
            pre_replay: None,
            nconns: 1,
            timed: false,
            lenient_scripts: false,
            dump_dbs: vec![0],
            dump_after_error: true,
            final_dump: true,
            workers: None,
            script_uncertain: true,
            max_shrink_execs: 400,
            level: "exploration",
        }
    }
}

pub fn history_strategy(cmd: BoxedStrategy<Cmd>, max_len: usize) -> BoxedStrategy<Vec<Step>> {
    proptest::collection::vec(cmd.prop_map(|args| Step::Cmd { conn: 0, args }), 1..=max_len).boxed()
}

/// Command names are case-insensitive: about one command in six is sent in lower or mixed case.
pub fn respelled(h: BoxedStrategy<Vec<Step>>) -> BoxedStrategy<Vec<Step>> {
    (h, proptest::collection::vec(any::<u8>(), 4..24))
        .prop_map(|(mut steps, noise)| {
            for (i, st) in steps.iter_mut().enumerate() {
                let how = noise[i % noise.len()];
                if how % 6 != 0 {
                    continue;
                }
                if let Step::Cmd { args, .. } | Step::Send { args, .. } = st {
                    if let Some(name) = args.first_mut() {
                        *name = if (how / 6) % 2 == 0 { name.to_ascii_lowercase() } else { name.iter().enumerate().map(|(j, c)| if j % 2 == 0 { c.to_ascii_lowercase() } else { c.to_ascii_uppercase() }).collect() };
                    }
                }
            }
            steps
        })
        .boxed()
}

pub fn activate(ev: &mut Evidence, id: &str, probes: &[(&'static str, Probe)], wk: &mut Worker) -> Active {
    let findings = Findings::load();
    let mut active = Active::default();
    for f in findings.open_for(id) {
        if let Some((_, p)) = probes.iter().find(|(pid, _)| *pid == f.id) {
            match p(wk) {
                Ok(true) => {
                    ev.known(&f.id, &f.what_fails);
                    active.ids.insert(f.id.clone());
                }
                Ok(false) => {
                    eprintln!("note: finding {} is listed open but its probe no longer reproduces; exclusion off", f.id);
                }
                Err(e) => {
                    eprintln!("note: probe for {} inconclusive ({}); exclusion off", f.id, e);
                }
            }
            // a probe may have killed the server
            let _ = wk.server();
        }
    }
    active
}

pub fn run(spec: &HistSpec, tier: Tier, seed: u64, replay: Option<Value>) -> i32 {
    let ev = Mutex::new(Evidence::new(spec.id, tier, seed, spec.level, spec.rule));
    {
        let mut e = ev.lock().unwrap();
        for a in &spec.assumptions {
            e.assumptions.push(a.to_string());
        }
    }
    let mut wk0 = match Worker::new(ServerOpts::default()) {
        Ok(w) => w,
        Err(e) => {
            eprintln!("infrastructure: cannot start server: {}", e);
            return 2;
        }
    };
    let active = if replay.is_some() { Active::default() } else { activate(&mut ev.lock().unwrap(), spec.id, &spec.probes, &mut wk0) };
    let active_ref = &active;
    let excluder = spec.excluder;
    let nontrivial = spec.nontrivial;
    let exec = move |wk: &mut Worker, steps: &Vec<Step>| -> CaseResult {
        let o = RunOpts {
            nconns: spec.nconns,
            timed: spec.timed,
            dump_dbs: spec.dump_dbs.clone(),
            dump_after_error: spec.dump_after_error,
            active: active_ref,
            excluder: &excluder,
            excluder_fn: excluder,
            nontrivial: &nontrivial,
            reply_timeout: Duration::from_secs(5),
            lenient_scripts: spec.lenient_scripts,
            final_dump: spec.final_dump,
            fresh_server_if_blocking: true,
            script_uncertain: spec.script_uncertain,
        };
        runner::run_script(wk, steps, &o)
    };

    if let (Some(r), Some(pr)) = (&replay, spec.pre_replay) {
        if let Some(code) = pr(r.get("case").unwrap_or(r)) {
            return code;
        }
    }
    if let Some(r) = replay {
        let steps = runner::j2steps(r.get("case").unwrap_or(&r));
        let res = exec(&mut wk0, &steps);
        crate::outln!("{}", serde_json::to_string_pretty(res.trace.as_ref().unwrap_or(&Value::Null)).unwrap());
        return match res.verdict {
            crate::driver::Verdict::Pass => {
                crate::outln!("replay: PASS");
                0
            }
            crate::driver::Verdict::Fail { what, sig } => {
                crate::outln!("replay: FAIL [{}] {}", sig, what);
                1
            }
            crate::driver::Verdict::Infra(m) => {
                crate::outln!("replay: inconclusive: {}", m);
                2
            }
        };
    }

    if let Some(p) = spec.pre_phase {
        std::panic::set_hook(Box::new(|_| {}));
        p(&mut ev.lock().unwrap(), tier, seed);
        let _ = std::panic::take_hook();
    }
    // fixed cases (grid + regressions), serially on worker 0
    for steps in (spec.fixed_cases)() {
        let r = exec(&mut wk0, &steps);
        let mut e = ev.lock().unwrap();
        e.record(crate::driver::hash_debug(&steps), &r);
        e.count_label("fixed-case", 1);
        if let crate::driver::Verdict::Fail { what, sig } = &r.verdict {
            let mut j = runner::steps2j(&steps);
            if let (Some(o), Some(t)) = (j.as_object_mut(), r.trace.clone()) {
                o.insert("trace".into(), t);
            }
            e.violation(what, sig, j);
        }
    }
    drop(wk0);

    let cfg = LoopCfg { cases: tier.pick(spec.quick_cases, spec.thorough_cases), workers: spec.workers.unwrap_or_else(crate::workers), max_shrink_execs: spec.max_shrink_execs, max_violations: std::env::var("FVH_MAX_VIOL").ok().and_then(|s| s.parse().ok()).unwrap_or(12) };
    let cmd = spec.cmd;
    let max_len = tier.pick(spec.max_len, spec.max_len * 3);
    crate::driver::run_cases(
        &ev,
        &cfg,
        || respelled(match spec.history { Some(h) => h(max_len), None => history_strategy(cmd(), max_len) }),
        |_| Worker::new(ServerOpts::default()),
        exec,
        |steps| runner::steps2j(steps),
    );
    let mut e = ev.lock().unwrap();
    // generator floors: a label the property needs must actually be produced
    let mut floor_missed = Vec::new();
    for (l, min) in &spec.label_floors {
        let got = e.labels.get(*l).cloned().unwrap_or(0);
        let min = tier.pick(*min, *min * 4);
        if got < min {
            floor_missed.push(format!("label {} seen {} < floor {}", l, got, min));
        }
    }
    if !floor_missed.is_empty() {
        e.extra.insert("generator_floor_missed".into(), serde_json::json!(floor_missed));
    }
    let _ = e.write();
    let code = e.exit_code();
    if code == 0 && !floor_missed.is_empty() {
        eprintln!("inconclusive: {:?}", floor_missed);
        return 2;
    }
    code
}
