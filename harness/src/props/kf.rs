//! Known-finding probes and exclusion predicates shared by the command-history checks.
//! Every predicate is narrow: it names the exact argument class the open finding concerns.

use crate::client::Reply;
use crate::findings::Active;
use crate::model::{parse_ll, upper, Bytes, Cmd, Val, World};
use crate::resp::Frame;
use crate::runner::Worker;

/// Positions of key arguments in the commands the history checks generate.
pub fn key_positions(c: &Cmd) -> Vec<usize> {
    let name = upper(&c[0]);
    let n = c.len();
    match name.as_str() {
        "DEL" | "EXISTS" | "MGET" | "SUNION" | "SINTER" | "SDIFF" | "WATCH" => (1..n).collect(),
        "MSET" => (1..n).step_by(2).collect(),
        "RENAME" | "RENAMENX" => (1..n.min(3)).collect(),
        "BLPOP" | "BRPOP" => (1..n.saturating_sub(1)).collect(),
        "KEYS" | "SELECT" | "PING" | "ECHO" | "DBSIZE" | "RANDOMKEY" | "FLUSHDB" | "FLUSHALL" | "MULTI" | "EXEC" | "DISCARD" | "UNWATCH" | "SCAN" | "PUBLISH" | "EVAL" | "EVALSHA"
        | "XREAD" | "XREADGROUP" | "XGROUP" | "XINFO" => vec![],
        _ => {
            if n >= 2 {
                vec![1]
            } else {
                vec![]
            }
        }
    }
}

/// Positions holding integer arguments.
pub fn int_positions(c: &Cmd) -> Vec<usize> {
    let name = upper(&c[0]);
    let n = c.len();
    let v: Vec<usize> = match name.as_str() {
        "GETRANGE" | "LRANGE" | "LTRIM" | "ZRANGE" | "ZREVRANGE" => vec![2, 3],
        "SETRANGE" | "INCRBY" | "DECRBY" | "LINDEX" | "LSET" | "LREM" | "SPOP" | "SRANDMEMBER" | "ZPOPMIN" | "ZPOPMAX" | "EXPIRE" | "PEXPIRE" | "SETEX" | "PSETEX" => vec![2],
        "HINCRBY" => vec![3],
        "SELECT" => vec![1],
        "SET" => (3..n).filter(|i| matches!(upper(&c[*i - 1]).as_str(), "EX" | "PX")).collect(),
        "XRANGE" | "XREVRANGE" => vec![5],
        "XTRIM" => vec![n.saturating_sub(1)],
        _ => vec![],
    };
    v.into_iter().filter(|i| *i < n).collect()
}

/// Accepted by Rust's integer parsers but not an integer in Redis' syntax (`+5`, `007`, `-0`).
pub fn is_lax_int(b: &[u8]) -> bool {
    if parse_ll(b).is_some() {
        return false;
    }
    // only the *spelling* is at issue: a canonical decimal that is merely out of range (2^63,
    // 2^64-1, ...) is not lax and stays in the checked domain
    match std::str::from_utf8(b) {
        Ok(s) => s.parse::<i128>().map_or(false, |v| v.to_string() != s),
        Err(_) => false,
    }
}

pub const K_EMPTY_KEY: &str = "K01-empty-key-refused";
pub const K_LAX_INT: &str = "K02-lax-integer-syntax";
pub const K_XADD_MAX: &str = "K03-xadd-auto-at-max-id";

pub fn probe_empty_key(wk: &mut Worker) -> Result<bool, String> {
    let mut c = wk.server()?.client().map_err(|e| e.to_string())?;
    let r = c.cmd(&[b"SET".as_ref(), b"", b"v"]);
    let _ = c.cmd(&[b"DEL".as_ref(), b""]);
    Ok(!matches!(r, Reply::Frame(Frame::Simple(_))))
}

pub fn probe_lax_int(wk: &mut Worker) -> Result<bool, String> {
    let mut c = wk.server()?.client().map_err(|e| e.to_string())?;
    let r = c.cmd(&[b"INCRBY".as_ref(), b"probe:laxint", b"+1"]);
    let _ = c.cmd(&[b"DEL".as_ref(), b"probe:laxint"]);
    Ok(!r.is_error())
}

pub fn probe_xadd_max(wk: &mut Worker) -> Result<bool, String> {
    let mut c = wk.server()?.client().map_err(|e| e.to_string())?;
    let _ = c.cmd(&[b"DEL".as_ref(), b"probe:xmax"]);
    let _ = c.cmd(&[b"XADD".as_ref(), b"probe:xmax", b"18446744073709551615-18446744073709551615", b"f", b"v"]);
    let r = c.cmd(&[b"XADD".as_ref(), b"probe:xmax", b"*", b"f", b"v"]);
    let _ = c.cmd(&[b"DEL".as_ref(), b"probe:xmax"]);
    Ok(!r.is_error())
}

/// Exclusions shared by C01/C03/C04/C15 histories.
pub fn common_excluder(a: &Active, w: &mut World, conn: usize, c: &Cmd) -> Option<&'static str> {
    if a.has(K_EMPTY_KEY) && key_positions(c).iter().any(|i| c[*i].is_empty()) {
        return Some(K_EMPTY_KEY);
    }
    if a.has(K_XADD_MAX) && c.len() >= 3 && upper(&c[0]) == "XADD" && c[2] == b"*" {
        let db = w.conns[conn].db;
        if let Some(Val::Stream(s)) = w.dbs[db].keys.get(&c[1]).map(|e| &e.val) {
            if s.last_id == (u64::MAX, u64::MAX) {
                return Some(K_XADD_MAX);
            }
        }
    }
    if a.has(K_LAX_INT) {
        if int_positions(c).iter().any(|i| is_lax_int(&c[*i])) {
            return Some(K_LAX_INT);
        }
        let name = upper(&c[0]);
        let db = w.conns[conn].db;
        match name.as_str() {
            "INCR" | "DECR" | "INCRBY" | "DECRBY" if c.len() >= 2 => {
                if let Some(Val::Str(s)) = w.dbs[db].keys.get(&c[1]).map(|e| &e.val) {
                    if is_lax_int(s) {
                        return Some(K_LAX_INT);
                    }
                }
            }
            "HINCRBY" if c.len() >= 3 => {
                if let Some(Val::Hash(h)) = w.dbs[db].keys.get(&c[1]).map(|e| &e.val) {
                    if h.get(&c[2]).map_or(false, |v| is_lax_int(v)) {
                        return Some(K_LAX_INT);
                    }
                }
            }
            _ => {}
        }
    }
    None
}

#[allow(dead_code)]
fn _b(_: Bytes) {}
