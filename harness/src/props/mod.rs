pub mod hist;
pub mod c01;
pub mod c02;
pub mod c02b;
pub mod c03;
pub mod c04;
pub mod c04a;
pub mod c05;
pub mod c06;
pub mod c07;
pub mod c07b;
pub mod c07c;
pub mod c08;
pub mod c09;
pub mod c10;
pub mod c11;
pub mod c12;
pub mod c13;
pub mod c14;
pub mod c15;
pub mod c16;
pub mod c17;
pub mod c18;
pub mod c19;
pub mod c20;
pub mod kf;

use crate::driver::Tier;
use serde_json::Value;

pub fn run(id: &str, tier: Tier, seed: u64, replay: Option<Value>) -> i32 {
    match id {
        "C01" => hist::run(&c01::spec(), tier, seed, replay),
        "C02" => hist::run(&c02::spec(), tier, seed, replay),
        "C03" => hist::run(&c03::spec(), tier, seed, replay),
        "C04" => hist::run(&c04::spec(), tier, seed, replay),
        "C05" => c05::run(tier, seed, replay),
        "C06" => c06::run(tier, seed, replay),
        "C07" => hist::run(&c07::spec(), tier, seed, replay),
        "C08" => hist::run(&c08::spec(), tier, seed, replay),
        "C09" => c09::run(tier, seed, replay),
        "C10" => c10::run(tier, seed, replay),
        "C11" => c11::run(tier, seed, replay),
        "C12" => c12::run(tier, seed, replay),
        "C13" => c13::run(tier, seed, replay),
        "C14" => c14::run(tier, seed, replay),
        "C15" => hist::run(&c15::spec(), tier, seed, replay),
        "C16" => c16::run(tier, seed, replay),
        "C17" => c17::run(tier, seed, replay),
        "C18" => hist::run(&c18::spec(), tier, seed, replay),
        "C19" => c19::run(tier, seed, replay),
        "C20" => c20::run(tier, seed, replay),
        _ => {
            eprintln!("unknown property {}", id);
            2
        }
    }
}
