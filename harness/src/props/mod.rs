pub mod hist;
pub mod c01;
pub mod kf;

use crate::driver::Tier;
use serde_json::Value;

pub fn run(id: &str, tier: Tier, seed: u64, replay: Option<Value>) -> i32 {
    match id {
        "C01" => hist::run(&c01::spec(), tier, seed, replay),
        _ => {
            eprintln!("unknown property {}", id);
            2
        }
    }
}
