//! Independent RESP2/RESP3 codec written from the protocol specification (not from
//! ferrous' `src/protocol`). Used by every black-box oracle, so a framing error in a reply
//! is visible as a distinct outcome.

use std::fmt;

#[derive(Clone, PartialEq)]
pub enum Frame {
    Simple(Vec<u8>),
    Error(Vec<u8>),
    Int(i64),
    Bulk(Vec<u8>),
    NullBulk,
    Array(Vec<Frame>),
    NullArray,
    // RESP3 forms (the server is not expected to send them to a RESP2 client, but the
    // decoder understands them so that a stray one is reported as such, not as garbage)
    Null3,
    Bool(bool),
    Double(Vec<u8>),
    Map(Vec<(Frame, Frame)>),
    Set3(Vec<Frame>),
}

pub fn show_bytes(b: &[u8]) -> String {
    let mut s = String::new();
    for &c in b.iter().take(200) {
        match c {
            b'\r' => s.push_str("\\r"),
            b'\n' => s.push_str("\\n"),
            b'\\' => s.push_str("\\\\"),
            b'"' => s.push_str("\\\""),
            0x20..=0x7e => s.push(c as char),
            _ => s.push_str(&format!("\\x{:02x}", c)),
        }
    }
    if b.len() > 200 {
        s.push_str(&format!("...(+{} bytes)", b.len() - 200));
    }
    s
}

impl fmt::Debug for Frame {
    fn fmt(&self, f: &mut fmt::Formatter<'_>) -> fmt::Result {
        match self {
            Frame::Simple(b) => write!(f, "+{}", show_bytes(b)),
            Frame::Error(b) => write!(f, "-{}", show_bytes(b)),
            Frame::Int(i) => write!(f, ":{}", i),
            Frame::Bulk(b) => write!(f, "\"{}\"", show_bytes(b)),
            Frame::NullBulk => write!(f, "nil"),
            Frame::NullArray => write!(f, "nil-array"),
            Frame::Null3 => write!(f, "null3"),
            Frame::Bool(b) => write!(f, "#{}", b),
            Frame::Double(b) => write!(f, ",{}", show_bytes(b)),
            Frame::Array(v) => {
                write!(f, "[")?;
                for (i, x) in v.iter().enumerate() {
                    if i > 0 {
                        write!(f, ", ")?;
                    }
                    if i >= 40 {
                        write!(f, "...(+{})", v.len() - 40)?;
                        break;
                    }
                    write!(f, "{:?}", x)?;
                }
                write!(f, "]")
            }
            Frame::Set3(v) => write!(f, "~{:?}", v),
            Frame::Map(v) => write!(f, "%{:?}", v),
        }
    }
}

impl Frame {
    pub fn bulk<B: AsRef<[u8]>>(b: B) -> Frame {
        Frame::Bulk(b.as_ref().to_vec())
    }
    pub fn ok() -> Frame {
        Frame::Simple(b"OK".to_vec())
    }
    pub fn is_error(&self) -> bool {
        matches!(self, Frame::Error(_))
    }
    pub fn is_nil(&self) -> bool {
        matches!(self, Frame::NullBulk | Frame::NullArray | Frame::Null3)
    }
    pub fn as_int(&self) -> Option<i64> {
        if let Frame::Int(i) = self {
            Some(*i)
        } else {
            None
        }
    }
    pub fn as_bytes(&self) -> Option<&[u8]> {
        match self {
            Frame::Bulk(b) | Frame::Simple(b) => Some(b),
            _ => None,
        }
    }
    pub fn as_array(&self) -> Option<&[Frame]> {
        if let Frame::Array(v) = self {
            Some(v)
        } else {
            None
        }
    }
    /// Serialise as the server would (used for byte-identity comparisons and AOF checks).
    pub fn encode(&self, out: &mut Vec<u8>) {
        match self {
            Frame::Simple(b) => {
                out.push(b'+');
                out.extend_from_slice(b);
                out.extend_from_slice(b"\r\n");
            }
            Frame::Error(b) => {
                out.push(b'-');
                out.extend_from_slice(b);
                out.extend_from_slice(b"\r\n");
            }
            Frame::Int(i) => {
                out.extend_from_slice(format!(":{}\r\n", i).as_bytes());
            }
            Frame::Bulk(b) => {
                out.extend_from_slice(format!("${}\r\n", b.len()).as_bytes());
                out.extend_from_slice(b);
                out.extend_from_slice(b"\r\n");
            }
            Frame::NullBulk => out.extend_from_slice(b"$-1\r\n"),
            Frame::NullArray => out.extend_from_slice(b"*-1\r\n"),
            Frame::Null3 => out.extend_from_slice(b"_\r\n"),
            Frame::Bool(b) => out.extend_from_slice(if *b { b"#t\r\n" } else { b"#f\r\n" }),
            Frame::Double(b) => {
                out.push(b',');
                out.extend_from_slice(b);
                out.extend_from_slice(b"\r\n");
            }
            Frame::Array(v) => {
                out.extend_from_slice(format!("*{}\r\n", v.len()).as_bytes());
                for x in v {
                    x.encode(out);
                }
            }
            Frame::Set3(v) => {
                out.extend_from_slice(format!("~{}\r\n", v.len()).as_bytes());
                for x in v {
                    x.encode(out);
                }
            }
            Frame::Map(v) => {
                out.extend_from_slice(format!("%{}\r\n", v.len()).as_bytes());
                for (k, x) in v {
                    k.encode(out);
                    x.encode(out);
                }
            }
        }
    }
}

#[derive(Debug, Clone, PartialEq)]
pub enum DecodeError {
    BadType(u8),
    BadLength,
    BadInt,
    MissingCrlf,
    TooDeep,
}

fn find_crlf(buf: &[u8], from: usize) -> Option<usize> {
    if buf.len() < 2 {
        return None;
    }
    let mut i = from;
    while i + 1 < buf.len() {
        if buf[i] == b'\r' && buf[i + 1] == b'\n' {
            return Some(i);
        }
        i += 1;
    }
    None
}

fn parse_i64(b: &[u8]) -> Option<i64> {
    if b.is_empty() {
        return None;
    }
    std::str::from_utf8(b).ok()?.parse::<i64>().ok()
}

/// Decode one frame from the start of `buf`.
/// Ok(None) = incomplete; Ok(Some((frame, consumed))).
pub fn decode(buf: &[u8]) -> Result<Option<(Frame, usize)>, DecodeError> {
    decode_at(buf, 0, 0)
}

fn decode_at(buf: &[u8], pos: usize, depth: usize) -> Result<Option<(Frame, usize)>, DecodeError> {
    if depth > 64 {
        return Err(DecodeError::TooDeep);
    }
    if pos >= buf.len() {
        return Ok(None);
    }
    let t = buf[pos];
    match t {
        b'+' | b'-' | b':' | b'$' | b'*' | b'_' | b'#' | b',' | b'%' | b'~' => {}
        other => return Err(DecodeError::BadType(other)),
    }
    let eol = match find_crlf(buf, pos + 1) {
        Some(e) => e,
        None => return Ok(None),
    };
    let line = &buf[pos + 1..eol];
    let after = eol + 2;
    match t {
        b'+' => Ok(Some((Frame::Simple(line.to_vec()), after))),
        b'-' => Ok(Some((Frame::Error(line.to_vec()), after))),
        b':' => match parse_i64(line) {
            Some(i) => Ok(Some((Frame::Int(i), after))),
            None => Err(DecodeError::BadInt),
        },
        b'_' => {
            if line.is_empty() {
                Ok(Some((Frame::Null3, after)))
            } else {
                Err(DecodeError::BadLength)
            }
        }
        b'#' => match line {
            b"t" => Ok(Some((Frame::Bool(true), after))),
            b"f" => Ok(Some((Frame::Bool(false), after))),
            _ => Err(DecodeError::BadLength),
        },
        b',' => Ok(Some((Frame::Double(line.to_vec()), after))),
        b'$' => {
            let n = parse_i64(line).ok_or(DecodeError::BadLength)?;
            if n == -1 {
                return Ok(Some((Frame::NullBulk, after)));
            }
            if n < 0 {
                return Err(DecodeError::BadLength);
            }
            let n = n as usize;
            if buf.len() < after + n + 2 {
                return Ok(None);
            }
            if &buf[after + n..after + n + 2] != b"\r\n" {
                return Err(DecodeError::MissingCrlf);
            }
            Ok(Some((Frame::Bulk(buf[after..after + n].to_vec()), after + n + 2)))
        }
        b'*' | b'~' | b'%' => {
            let n = parse_i64(line).ok_or(DecodeError::BadLength)?;
            if n == -1 && t == b'*' {
                return Ok(Some((Frame::NullArray, after)));
            }
            if n < 0 {
                return Err(DecodeError::BadLength);
            }
            let count = if t == b'%' { (n as usize).saturating_mul(2) } else { n as usize };
            let mut items = Vec::new();
            let mut p = after;
            for _ in 0..count {
                match decode_at(buf, p, depth + 1)? {
                    Some((f, np)) => {
                        items.push(f);
                        p = np;
                    }
                    None => return Ok(None),
                }
            }
            let f = match t {
                b'*' => Frame::Array(items),
                b'~' => Frame::Set3(items),
                _ => {
                    let mut kv = Vec::new();
                    let mut it = items.into_iter();
                    while let (Some(k), Some(v)) = (it.next(), it.next()) {
                        kv.push((k, v));
                    }
                    Frame::Map(kv)
                }
            };
            Ok(Some((f, p)))
        }
        _ => unreachable!(),
    }
}

/// Encode a command as an array of bulk strings.
pub fn encode_cmd<B: AsRef<[u8]>>(args: &[B]) -> Vec<u8> {
    let mut out = Vec::with_capacity(16 + args.iter().map(|a| a.as_ref().len() + 16).sum::<usize>());
    out.extend_from_slice(format!("*{}\r\n", args.len()).as_bytes());
    for a in args {
        let a = a.as_ref();
        out.extend_from_slice(format!("${}\r\n", a.len()).as_bytes());
        out.extend_from_slice(a);
        out.extend_from_slice(b"\r\n");
    }
    out
}

/// Decode a whole buffer into frames; returns (frames, leftover bytes, error).
pub fn decode_all(buf: &[u8]) -> (Vec<Frame>, usize, Option<DecodeError>) {
    let mut frames = Vec::new();
    let mut pos = 0;
    loop {
        match decode(&buf[pos..]) {
            Ok(Some((f, n))) => {
                frames.push(f);
                pos += n;
            }
            Ok(None) => return (frames, buf.len() - pos, None),
            Err(e) => return (frames, buf.len() - pos, Some(e)),
        }
    }
}
