//! Interpreter for command histories: executes each step against the child server and the
//! reference model, compares after every step, and compares canonical dumps after refused
//! commands and at the end (failure atomicity / resulting dataset).

use crate::client::{Client, Reply};
use crate::driver::{b2j, CaseResult, Verdict};
use crate::dump;
use crate::findings::Active;
use crate::model::{show_cmd, Cmd, StepNote, Tm, World};
use crate::resp::Frame;
use crate::sut::{Server, ServerOpts};
use serde_json::{json, Value};
use std::collections::BTreeMap;
use std::time::{Duration, Instant};

#[derive(Clone, Debug)]
pub enum Step {
    Cmd { conn: usize, args: Cmd },
    /// sleep for this many milliseconds
    Sleep(u64),
    /// close and reopen a client connection (transaction state is dropped)
    Reconnect { conn: usize },
    /// send a command without waiting for its reply (blocking commands)
    Send { conn: usize, args: Cmd },
    /// read the reply of the command sent earlier on this connection and judge it
    Recv { conn: usize },
    /// compare the canonical dump with the model now
    Dump,
}

pub fn step2j(s: &Step) -> Value {
    match s {
        Step::Cmd { conn, args } => json!({"conn": conn, "cmd": crate::driver::cmd2j(args)}),
        Step::Sleep(ms) => json!({"sleep_ms": ms}),
        Step::Reconnect { conn } => json!({"reconnect": conn}),
        Step::Send { conn, args } => json!({"conn": conn, "send": crate::driver::cmd2j(args)}),
        Step::Recv { conn } => json!({"recv": conn}),
        Step::Dump => json!({"dump": true}),
    }
}

pub fn j2step(v: &Value) -> Option<Step> {
    if let Some(ms) = v.get("sleep_ms").and_then(|x| x.as_u64()) {
        return Some(Step::Sleep(ms));
    }
    if let Some(c) = v.get("reconnect").and_then(|x| x.as_u64()) {
        return Some(Step::Reconnect { conn: c as usize });
    }
    if let Some(c) = v.get("recv").and_then(|x| x.as_u64()) {
        return Some(Step::Recv { conn: c as usize });
    }
    if v.get("dump").is_some() {
        return Some(Step::Dump);
    }
    let conn = v.get("conn").and_then(|x| x.as_u64()).unwrap_or(0) as usize;
    if let Some(sv) = v.get("send") {
        return Some(Step::Send { conn, args: crate::driver::j2cmd(sv) });
    }
    let args = crate::driver::j2cmd(v.get("cmd")?);
    Some(Step::Cmd { conn, args })
}

pub fn steps2j(steps: &[Step]) -> Value {
    json!({"steps": steps.iter().map(step2j).collect::<Vec<_>>()})
}

pub fn j2steps(v: &Value) -> Vec<Step> {
    v.get("steps").and_then(|s| s.as_array()).map(|a| a.iter().filter_map(j2step).collect()).unwrap_or_default()
}

/// Per-worker state: one child server, restarted when it dies or on request.
pub struct Worker {
    pub server: Option<Server>,
    pub opts: ServerOpts,
    pub cases_on_server: u64,
}

impl Worker {
    pub fn new(opts: ServerOpts) -> Result<Worker, String> {
        let s = Server::start(opts.clone())?;
        Ok(Worker { server: Some(s), opts, cases_on_server: 0 })
    }

    pub fn server(&mut self) -> Result<&mut Server, String> {
        let need = match &mut self.server {
            Some(s) => !s.alive(),
            None => true,
        };
        if need {
            self.server = None;
            self.server = Some(Server::start(self.opts.clone())?);
            self.cases_on_server = 0;
        }
        Ok(self.server.as_mut().unwrap())
    }

    pub fn fresh_server(&mut self) -> Result<&mut Server, String> {
        self.server = None;
        self.server()
    }
}

/// Which finding's exclusion (if any) applies to a step, given the model state before it.
pub type Excluder<'a> = &'a (dyn Fn(&Active, &mut World, usize, &Cmd) -> Option<&'static str> + Sync);

pub struct RunOpts<'a> {
    pub nconns: usize,
    pub timed: bool,
    pub dump_dbs: Vec<usize>,
    pub dump_after_error: bool,
    pub active: &'a Active,
    pub excluder: Excluder<'a>,
    pub excluder_fn: fn(&Active, &mut World, usize, &Cmd) -> Option<&'static str>,
    /// decides non-triviality from the labels and the number of mutations
    pub nontrivial: &'a (dyn Fn(&World) -> bool + Sync),
    pub reply_timeout: Duration,
    /// commands issued through the wrapper script are applied with lenient reply checking
    pub lenient_scripts: bool,
    /// compare the dump at the end of the history
    pub final_dump: bool,
    /// use a fresh server for this case when it contains blocking commands
    pub fresh_server_if_blocking: bool,
    pub script_uncertain: bool,
}

fn short_reply(r: &Reply) -> String {
    let s = format!("{:?}", r);
    if s.len() > 300 {
        format!("{}...", &s[..300])
    } else {
        s
    }
}

fn short_cmd(c: &Cmd) -> String {
    let s = show_cmd(c);
    if s.len() > 300 {
        format!("{}...", &s[..300])
    } else {
        s
    }
}

/// Bring the server to the empty state and return an observer connection.
pub fn reset_server(server: &mut Server) -> Result<Client, String> {
    let mut obs = server.client().map_err(|e| format!("observer connect: {}", e))?;
    match obs.cmd(&[b"FLUSHALL".as_ref()]) {
        Reply::Frame(Frame::Simple(s)) if s == b"OK" => {}
        r => return Err(format!("FLUSHALL -> {:?}", r)),
    }
    Ok(obs)
}

pub fn run_script(wk: &mut Worker, steps: &[Step], o: &RunOpts) -> CaseResult {
    let server = match wk.server() {
        Ok(s) => s,
        Err(e) => return CaseResult::infra(format!("server start: {}", e)),
    };
    let mut obs = match reset_server(server) {
        Ok(c) => c,
        Err(e) => {
            // a server that cannot even flush is replaced; the case is inconclusive
            wk.server = None;
            return CaseResult::infra(e);
        }
    };
    let port = server.port;
    let mut conns: Vec<Client> = Vec::new();
    for _ in 0..o.nconns {
        match server.client() {
            Ok(mut c) => {
                c.default_timeout = o.reply_timeout;
                conns.push(c)
            }
            Err(e) => return CaseResult::infra(format!("connect: {}", e)),
        }
    }
    let _ = port;
    let mut world = World::new(o.nconns);
    world.t0 = Some(Instant::now());
    world.timed = o.timed;
    world.lenient_scripts = o.lenient_scripts;
    world.script_uncertain = o.script_uncertain;
    {
        let active = o.active.clone();
        let exf = o.excluder_fn;
        world.slot_excluder = Some(std::sync::Arc::new(move |w: &mut World, conn: usize, c: &Cmd| exf(&active, w, conn, c).is_some()));
    }
    let mut pending: Vec<Option<(Cmd, Instant)>> = (0..o.nconns).map(|_| None).collect();
    let mut used_blocking = false;
    let t0 = world.t0.unwrap();
    let mut excluded: BTreeMap<String, u64> = BTreeMap::new();
    let mut trace: Vec<Value> = Vec::new();
    let mut fail: Option<(String, String)> = None;
    let mut ambiguous_end = false;

    let ms = |t: Instant| t.duration_since(t0).as_secs_f64() * 1000.0;

    'steps: for (si, st) in steps.iter().enumerate() {
        match st {
            Step::Sleep(d) => {
                std::thread::sleep(Duration::from_millis(*d));
                trace.push(json!({"sleep_ms": d}));
            }
            Step::Reconnect { conn } => {
                let conn = *conn % o.nconns;
                conns[conn].close();
                match wk.server.as_ref().unwrap().client() {
                    Ok(mut c) => {
                        c.default_timeout = o.reply_timeout;
                        conns[conn] = c;
                    }
                    Err(e) => return CaseResult::infra(format!("reconnect: {}", e)),
                }
                world.disconnect(conn);
                world.label("reconnect");
                trace.push(json!({"reconnect": conn}));
            }
            Step::Dump => {
                if world.uncertain {
                    continue;
                }
                world.label("mid-dump");
                if let Some(d) = compare_dump(&mut obs, &mut world, &o.dump_dbs) {
                    match d {
                        Ok(diff) => fail = Some((format!("step {}: dataset differs from the model: {}", si, diff), "mid-dump".to_string())),
                        Err(e) => fail = Some((format!("step {}: dump failed: {}", si, e), "mid-dump-failed".to_string())),
                    }
                    break 'steps;
                }
            }
            Step::Send { conn, args } => {
                let conn = *conn % o.nconns;
                if args.is_empty() || pending[conn].is_some() {
                    continue;
                }
                if let Some(fid) = (o.excluder)(o.active, &mut world, conn, args) {
                    *excluded.entry(fid.to_string()).or_insert(0) += 1;
                    continue;
                }
                used_blocking = true;
                let _ = conns[conn].send_cmd(args);
                pending[conn] = Some((args.clone(), Instant::now()));
                trace.push(json!({"conn": conn, "send": short_cmd(args)}));
                // let the server process it before the next step
                std::thread::sleep(Duration::from_millis(15));
            }
            Step::Recv { conn } => {
                let conn = *conn % o.nconns;
                let (args, t_send) = match pending[conn].take() {
                    Some(p) => p,
                    None => continue,
                };
                let reply = conns[conn].reply();
                let t_recv = Instant::now();
                let tm = Tm { send: ms(t_send), recv: ms(t_recv) };
                trace.push(json!({"conn": conn, "recv_for": short_cmd(&args), "reply": short_reply(&reply)}));
                match world.exec(conn, &args, &reply, tm) {
                    Ok(_) => {}
                    Err(m) => {
                        let name = crate::model::upper(&args[0]);
                        fail = Some((format!("step {}: {} (sent earlier) -> got {}, expected {}", si, short_cmd(&args), m.got, m.expected), format!("{}:{}", name, m.kind)));
                        break 'steps;
                    }
                }
            }
            Step::Cmd { conn, args } => {
                let conn = *conn % o.nconns;
                if args.is_empty() || pending[conn].is_some() {
                    continue;
                }
                if let Some(fid) = (o.excluder)(o.active, &mut world, conn, args) {
                    *excluded.entry(fid.to_string()).or_insert(0) += 1;
                    continue;
                }
                let t_send = Instant::now();
                let reply = conns[conn].cmd(args);
                let t_recv = Instant::now();
                let tm = Tm { send: ms(t_send), recv: ms(t_recv) };
                if trace.len() < 200 {
                    trace.push(json!({"conn": conn, "cmd": short_cmd(args), "reply": short_reply(&reply)}));
                }
                let was_error = reply.is_error();
                match world.exec(conn, args, &reply, tm) {
                    Ok(StepNote::Checked) => {}
                    Ok(StepNote::Ambiguous) => {
                        world.label("ambiguous-deadline");
                        ambiguous_end = true;
                        break 'steps;
                    }
                    Err(m) => {
                        let name = crate::model::upper(&args[0]);
                        let mut what = format!("step {}: {} -> got {}, expected {}", si, short_cmd(args), m.got, m.expected);
                        let mut sig = format!("{}:{}", name, m.kind);
                        if !matches!(reply, Reply::Frame(_)) {
                            // distinguish a dead server from a dropped connection
                            std::thread::sleep(Duration::from_millis(50));
                            let srv = wk.server.as_mut().unwrap();
                            if !srv.alive() {
                                let ps = srv.panic_signature().unwrap_or_else(|| "no panic message".into());
                                what = format!("{}; SERVER PROCESS DIED ({}): {}", what, srv.exit_status().unwrap_or_default(), ps);
                                sig = format!("{}:server-died", name);
                            } else if matches!(reply, Reply::Closed) {
                                sig = format!("{}:connection-dropped", name);
                            } else if matches!(reply, Reply::Timeout) {
                                sig = format!("{}:no-reply", name);
                                // a wedged server must not poison later cases
                                wk.server = None;
                            }
                        }
                        fail = Some((what, sig));
                        break 'steps;
                    }
                }
                if was_error && o.dump_after_error && !world.uncertain {
                    world.label("refused-then-dump");
                    if let Some(d) = compare_dump(&mut obs, &mut world, &o.dump_dbs) {
                        let name = crate::model::upper(&args[0]);
                        match d {
                            Ok(diff) => {
                                fail = Some((format!("step {}: refused command {} changed the dataset: {}", si, short_cmd(args), diff), format!("{}:refused-but-changed", name)));
                            }
                            Err(e) => {
                                fail = Some((format!("step {}: dump after refused {} failed: {}", si, short_cmd(args), e), format!("{}:dump-failed", name)));
                            }
                        }
                        break 'steps;
                    }
                }
            }
        }
    }
    if fail.is_none() && !ambiguous_end && o.final_dump && !world.uncertain && pending.iter().all(|p| p.is_none()) {
        if let Some(d) = compare_dump(&mut obs, &mut world, &o.dump_dbs) {
            match d {
                Ok(diff) => fail = Some((format!("final dataset differs: {}", diff), "final-dump".to_string())),
                Err(e) => fail = Some((format!("final dump failed: {}", e), "final-dump-failed".to_string())),
            }
        }
    }
    if let Some(s) = wk.server.as_mut() {
        if !s.alive() {
            wk.server = None;
        }
    }
    if (used_blocking && o.fresh_server_if_blocking) || pending.iter().any(|p| p.is_some()) {
        // a blocked client may leave a registration behind: do not reuse this server
        wk.server = None;
    }
    wk.cases_on_server += 1;
    let nontrivial = (o.nontrivial)(&world);
    let labels: Vec<String> = world.labels.iter().map(|s| s.to_string()).collect();
    let verdict = match fail {
        Some((what, sig)) => Verdict::Fail { what, sig },
        None => Verdict::Pass,
    };
    CaseResult { verdict, labels, nontrivial, excluded: excluded.into_iter().collect(), trace: Some(Value::Array(trace)) }
}

/// None = equal; Some(Ok(diff)) = different; Some(Err(e)) = the dump itself failed.
fn compare_dump(obs: &mut Client, world: &mut World, dbs: &[usize]) -> Option<Result<String, String>> {
    let t0 = world.clock_ms();
    let mut got = match dump::dump_server(obs, dbs) {
        Ok(d) => d,
        Err(e) => return Some(Err(e)),
    };
    let t1 = world.clock_ms();
    // the dump window is "now" for the model: keys whose deadline passed before it are gone,
    // keys whose deadline lies inside it are not compared
    world.now = Tm { send: t0, recv: t1 };
    let undecided = world.undecided_keys(dbs);
    let mut exp = dump::dump_model(world, dbs);
    for (db, k) in undecided {
        if let Some(d) = exp.get_mut(&db) {
            d.remove(&k);
        }
        if let Some(d) = got.get_mut(&db) {
            d.remove(&k);
        }
    }
    dump::diff(&exp, &got).map(Ok)
}

#[allow(dead_code)]
fn _unused(_: &dyn Fn(&[u8]) -> Value) {
    let _ = b2j;
}
