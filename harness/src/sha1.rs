//! Minimal SHA-1 (FIPS 180-1) for computing script digests independently of the server.

pub fn sha1_hex(data: &[u8]) -> String {
    let mut h: [u32; 5] = [0x67452301, 0xEFCDAB89, 0x98BADCFE, 0x10325476, 0xC3D2E1F0];
    let ml = (data.len() as u64) * 8;
    let mut msg = data.to_vec();
    msg.push(0x80);
    while msg.len() % 64 != 56 {
        msg.push(0);
    }
    msg.extend_from_slice(&ml.to_be_bytes());
    for chunk in msg.chunks(64) {
        let mut w = [0u32; 80];
        for i in 0..16 {
            w[i] = u32::from_be_bytes([chunk[4 * i], chunk[4 * i + 1], chunk[4 * i + 2], chunk[4 * i + 3]]);
        }
        for i in 16..80 {
            w[i] = (w[i - 3] ^ w[i - 8] ^ w[i - 14] ^ w[i - 16]).rotate_left(1);
        }
        let (mut a, mut b, mut c, mut d, mut e) = (h[0], h[1], h[2], h[3], h[4]);
        for (i, wi) in w.iter().enumerate() {
            let (f, k) = match i {
                0..=19 => ((b & c) | ((!b) & d), 0x5A827999u32),
                20..=39 => (b ^ c ^ d, 0x6ED9EBA1),
                40..=59 => ((b & c) | (b & d) | (c & d), 0x8F1BBCDC),
                _ => (b ^ c ^ d, 0xCA62C1D6),
            };
            let t = a.rotate_left(5).wrapping_add(f).wrapping_add(e).wrapping_add(k).wrapping_add(*wi);
            e = d;
            d = c;
            c = b.rotate_left(30);
            b = a;
            a = t;
        }
        h[0] = h[0].wrapping_add(a);
        h[1] = h[1].wrapping_add(b);
        h[2] = h[2].wrapping_add(c);
        h[3] = h[3].wrapping_add(d);
        h[4] = h[4].wrapping_add(e);
    }
    h.iter().map(|x| format!("{:08x}", x)).collect()
}

#[cfg(test)]
mod tests {
    #[test]
    fn vectors() {
        assert_eq!(super::sha1_hex(b"abc"), "a9993e364706816aba3e25717850c26c9cd0d89d");
        assert_eq!(super::sha1_hex(b""), "da39a3ee5e6b4b0d3255bfef95601890afd80709");
    }
}
