//! Child-process manager for the server under test.
//!
//! The child is this same executable in `serve` mode: it builds a `ferrous::Config` exactly
//! as `src/main.rs` does from `--port/--dir/--dbfilename/--appendonly/--requirepass` and calls
//! `ferrous::Server::from_config(cfg)?.run()` on its main thread, so a panic on the command
//! thread ends the process just as it does for the shipped binary. It is linked against
//! /repo's current working tree (path dependency), rebuilt by `bin/check` before every run.

use crate::client::{Client, Reply};
use crate::resp::Frame;
use std::os::unix::process::CommandExt;
use std::path::{Path, PathBuf};
use std::process::{Child, Command, Stdio};
use std::sync::atomic::{AtomicU64, Ordering};
use std::time::{Duration, Instant};

static DIR_COUNTER: AtomicU64 = AtomicU64::new(0);

#[derive(Clone, Debug, Default)]
pub struct ServerOpts {
    pub appendonly: bool,
    pub password: Option<String>,
    /// Reuse this directory (restart on the same data); otherwise a fresh one is created.
    pub dir: Option<PathBuf>,
}

pub struct Server {
    pub child: Child,
    pub port: u16,
    pub dir: PathBuf,
    pub opts: ServerOpts,
    owns_dir: bool,
}

pub fn scratch_root() -> PathBuf {
    let base = std::env::var("FVH_TMP").unwrap_or_else(|_| "/tmp".to_string());
    PathBuf::from(base)
}

pub fn fresh_dir(tag: &str) -> PathBuf {
    let n = DIR_COUNTER.fetch_add(1, Ordering::SeqCst);
    let d = scratch_root().join(format!("fvh-{}-{}-{}", std::process::id(), tag, n));
    let _ = std::fs::remove_dir_all(&d);
    std::fs::create_dir_all(&d).expect("create scratch dir");
    d
}

static PORT_COUNTER: AtomicU64 = AtomicU64::new(0);

/// A port nobody listens on right now. Ports are handed out from a per-process sequence (so
/// that two workers of one check never race for the same kernel-chosen ephemeral port) and
/// probed by binding.
fn free_port() -> u16 {
    let base = 20000 + (std::process::id() as u64 * 131) % 20000;
    for _ in 0..2000 {
        let n = PORT_COUNTER.fetch_add(1, Ordering::SeqCst);
        let port = (20000 + (base - 20000 + n * 7) % 40000) as u16;
        if let Ok(l) = std::net::TcpListener::bind(("127.0.0.1", port)) {
            drop(l);
            return port;
        }
    }
    let l = std::net::TcpListener::bind("127.0.0.1:0").expect("bind ephemeral");
    l.local_addr().unwrap().port()
}

impl Server {
    pub fn start(opts: ServerOpts) -> Result<Server, String> {
        let (dir, owns_dir) = match &opts.dir {
            Some(d) => (d.clone(), false),
            None => (fresh_dir("srv"), true),
        };
        let mut last_err = String::new();
        for _attempt in 0..5 {
            let port = free_port();
            match Self::spawn(&dir, port, &opts) {
                Ok(child) => {
                    let mut s = Server { child, port, dir: dir.clone(), opts: opts.clone(), owns_dir };
                    if s.wait_ready(Duration::from_secs(20)) {
                        return Ok(s);
                    }
                    last_err = format!("server on port {} did not become ready; stderr: {}", port, s.stderr_tail());
                    s.owns_dir = false;
                    s.kill();
                }
                Err(e) => last_err = e,
            }
        }
        if owns_dir {
            let _ = std::fs::remove_dir_all(&dir);
        }
        Err(last_err)
    }

    fn spawn(dir: &Path, port: u16, opts: &ServerOpts) -> Result<Child, String> {
        let exe = crate::own_exe();
        let mut cmd = Command::new(exe);
        cmd.arg("serve").arg("--port").arg(port.to_string()).arg("--dir").arg(dir);
        if opts.appendonly {
            cmd.arg("--appendonly");
        }
        if let Some(p) = &opts.password {
            // Both ways a password can be set are exercised: on the command line, and (for
            // passwords a configuration file can spell, every second one) by a requirepass line
            // in a configuration file with nothing on the command line.
            let conf_safe = !p.is_empty() && p.bytes().all(|b| b.is_ascii_alphanumeric());
            if conf_safe && p.len() % 2 == 0 {
                let conf = dir.join("ferrous.conf");
                std::fs::write(&conf, format!("# written by the harness\nrequirepass {}\n", p)).map_err(|e| e.to_string())?;
                cmd.arg("--config").arg(&conf);
            } else {
                cmd.arg("--requirepass").arg(p);
            }
        }
        let errf = std::fs::OpenOptions::new()
            .create(true)
            .append(true)
            .open(dir.join("stderr.log"))
            .map_err(|e| e.to_string())?;
        cmd.stdin(Stdio::null()).stdout(Stdio::null()).stderr(errf);
        cmd.env("RUST_BACKTRACE", "1");
        cmd.current_dir(dir);
        unsafe {
            cmd.pre_exec(|| {
                // die with the parent; cap address space so a runaway allocation aborts the
                // child instead of the machine
                libc::prctl(libc::PR_SET_PDEATHSIG, libc::SIGKILL);
                let lim = libc::rlimit { rlim_cur: 16 << 30, rlim_max: 16 << 30 };
                libc::setrlimit(libc::RLIMIT_AS, &lim);
                Ok(())
            });
        }
        cmd.spawn().map_err(|e| e.to_string())
    }

    fn wait_ready(&mut self, max: Duration) -> bool {
        let deadline = Instant::now() + max;
        while Instant::now() < deadline {
            if !self.alive() {
                return false;
            }
            if let Ok(mut c) = Client::connect(self.port) {
                if let Some(p) = &self.opts.password {
                    let _ = c.cmd(&[b"AUTH".as_ref(), p.as_bytes()]);
                }
                if let Reply::Frame(Frame::Simple(s)) = c.read_or_cmd_ping() {
                    if s == b"PONG" {
                        // make sure the answer came from *our* child: a child that lost the race
                        // for the port exits at once with a bind error
                        std::thread::sleep(Duration::from_millis(40));
                        if !self.alive() {
                            return false;
                        }
                        return true;
                    }
                }
            }
            std::thread::sleep(Duration::from_millis(5));
        }
        false
    }

    pub fn alive(&mut self) -> bool {
        matches!(self.child.try_wait(), Ok(None))
    }

    /// Exit status if the process has ended.
    pub fn exit_status(&mut self) -> Option<String> {
        match self.child.try_wait() {
            Ok(Some(st)) => Some(format!("{:?}", st)),
            _ => None,
        }
    }

    pub fn client(&self) -> std::io::Result<Client> {
        let mut c = Client::connect(self.port)?;
        if let Some(p) = &self.opts.password {
            let _ = c.cmd(&[b"AUTH".as_ref(), p.as_bytes()]);
        }
        Ok(c)
    }

    pub fn raw_client(&self) -> std::io::Result<Client> {
        Client::connect(self.port)
    }

    pub fn stderr_tail(&self) -> String {
        let s = std::fs::read(self.dir.join("stderr.log")).unwrap_or_default();
        let s = String::from_utf8_lossy(&s);
        let lines: Vec<&str> = s.lines().collect();
        let n = lines.len();
        lines[n.saturating_sub(30)..].join("\n")
    }

    /// First panic message + first `ferrous::` frame from the child's stderr, if any.
    pub fn panic_signature(&self) -> Option<String> {
        let s = std::fs::read(self.dir.join("stderr.log")).unwrap_or_default();
        let s = String::from_utf8_lossy(&s);
        let mut sig = None;
        let mut lines = s.lines();
        while let Some(l) = lines.next() {
            if l.contains("panicked at") {
                let mut m = l.trim().to_string();
                if let Some(n) = lines.next() {
                    m.push_str(" | ");
                    m.push_str(n.trim());
                }
                sig = Some(m);
                break;
            }
            if l.contains("memory allocation of") || l.contains("stack overflow") {
                sig = Some(l.trim().to_string());
                break;
            }
        }
        sig
    }

    pub fn kill(&mut self) {
        let _ = self.child.kill();
        let _ = self.child.wait();
    }

    /// kill -9 and start again on the same directory (same options).
    pub fn restart(&mut self) -> Result<(), String> {
        self.kill();
        let mut last_err = String::new();
        for _ in 0..5 {
            let port = free_port();
            match Self::spawn(&self.dir, port, &self.opts) {
                Ok(child) => {
                    self.child = child;
                    self.port = port;
                    if self.wait_ready(Duration::from_secs(20)) {
                        return Ok(());
                    }
                    last_err = format!("restart: not ready; stderr: {}", self.stderr_tail());
                    self.kill();
                }
                Err(e) => last_err = e,
            }
        }
        Err(last_err)
    }
}

impl Drop for Server {
    fn drop(&mut self) {
        self.kill();
        if self.owns_dir {
            let _ = std::fs::remove_dir_all(&self.dir);
        }
    }
}

impl Client {
    fn read_or_cmd_ping(&mut self) -> Reply {
        self.default_timeout = Duration::from_millis(500);
        let r = self.cmd(&[b"PING".as_ref()]);
        self.default_timeout = Duration::from_secs(5);
        r
    }
}

/// Entry point of `check serve ...` (runs forever).
pub fn serve_main(args: &[String]) -> ! {
    // The configuration is assembled the way ferrous' own main does it: defaults or a
    // configuration file, then the command-line overrides merged by Config::apply_cli_args.
    let mut cli = ferrous::config::CliArgs::default();
    cli.bind = Some("127.0.0.1".to_string());
    let mut i = 0;
    while i < args.len() {
        match args[i].as_str() {
            "--port" => {
                cli.port = Some(args[i + 1].parse().expect("port"));
                i += 2;
            }
            "--dir" => {
                cli.dir = Some(args[i + 1].clone());
                i += 2;
            }
            "--dbfilename" => {
                cli.dbfilename = Some(args[i + 1].clone());
                i += 2;
            }
            "--appendonly" => {
                cli.appendonly = true;
                i += 1;
            }
            "--requirepass" => {
                cli.password = Some(args[i + 1].clone());
                i += 2;
            }
            "--config" => {
                cli.config = Some(std::path::PathBuf::from(&args[i + 1]));
                i += 2;
            }
            other => {
                eprintln!("serve: unknown argument {}", other);
                std::process::exit(2);
            }
        }
    }
    let mut cfg = match &cli.config {
        Some(path) => match ferrous::Config::from_file(path.clone()) {
            Ok(c) => c,
            Err(e) => {
                eprintln!("Error loading configuration: {}", e);
                std::process::exit(1);
            }
        },
        None => ferrous::Config::default(),
    };
    cfg.apply_cli_args(cli);
    match ferrous::Server::from_config(cfg) {
        Ok(mut s) => {
            if let Err(e) = s.run() {
                eprintln!("Error: {}", e);
                std::process::exit(1);
            }
            std::process::exit(0);
        }
        Err(e) => {
            eprintln!("Error: {}", e);
            std::process::exit(1);
        }
    }
}
